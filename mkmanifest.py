#!/usr/bin/env python3
"""Regenerates MANIFEST.json from the table below (kept in one place so the
manifest stays valid while checks are added)."""
import json, os

TECH = "bounded symbolic execution of the go/ssa form of the real packages + SMT (strings, integers) with cvc5/z3 portfolio; counterexamples replayed natively"
TRUST = ("Trusted: go/types + go/ssa (x/tools v0.29.0); the engine's instruction semantics and its models of "
         "strings/strconv/fmt/errors/sort/regexp-by-template/os.Getenv (every explored path is replayed against the natively "
         "compiled real code and compared, and the regexp and ParseFloat models are compared with the real packages on all short "
         "strings at every run); unsat answers of cvc5 1.0 / z3 4.8.12 / z3 5.1. Bounds are the structural ones written in the harness.")

CHECKS = {
 "C01": ("For every scalar option kind (6), every mode (3) and EVERY value text v (one unconstrained SMT string, no length bound) "
         "the solver shows that --name=v and --name v store exactly v / exactly the strconv conversion, set Called, leave siblings alone, "
         "and that invalid numerals give an error with nil remaining; flags, increments and bare optional-value options likewise.",
         "argv of 1-3 tokens around the option under test; float texts restricted to decimal/special forms with <=20 digits and <=2 exponent digits (hex/underscore forms cut and counted); "),
}

NOT_YET = "check not built yet in this session (work in progress; see DESIGN.md section 12)"

def main():
    props = [json.loads(l) for l in open(os.path.join(os.path.dirname(__file__), "properties.jsonl"))]
    checks, na = [], []
    for p in props:
        pid = p["id"]
        if pid in CHECKS:
            text, bounds = CHECKS[pid]
            checks.append({
                "property_id": pid,
                "quick_cmd": f"./check {pid} quick",
                "thorough_cmd": f"./check {pid} thorough",
                "evidence_file": f"/verif/evidence/{pid}.json",
                "replay_cmd_template": "./check replay {path}",
                "engine": "symgo",
                "level_claimed": {"category": "model_checking", "text": text, "design_ref": "DESIGN.md section 4 (" + pid + ")"},
                "level_note": "Bounds: " + bounds + TRUST,
                "technique": TECH,
            })
        else:
            na.append({"property_id": pid, "reason": NOT_YET})
    man = {
        "version": 1,
        "setup_cmd": "mkdir -p bin work && cd engine && GOFLAGS=-mod=mod GOPROXY=off GOSUMDB=off GOTOOLCHAIN=local go build -o ../bin/symgo .",
        "hooks": {
            "guard": "verif",
            "enable": "harness files (//go:build verif) are injected by go/packages and go test -overlay as /repo/zz_verif_*.go; /repo itself is never written and contains no hook code",
            "baseline_off_cmd": "cd /repo && GOFLAGS=-mod=mod go test -json -vet=off -count=1 -timeout 25m ./...",
            "source_commits": [],
            "add_only": True,
        },
        "engines": [{"name": "symgo", "path": "/verif/engine", "serves_properties": sorted(CHECKS), "kind_free_text": "symbolic executor over go/ssa with SMT string/integer encoding, decision-trace re-execution, native replay"}],
        "checks": checks,
        "not_applicable": na,
        "notes": "exit 0 = property held on every explored path; exit 1 + VIOLATION line = natively reproduced counterexample; exit 2 + INCONCLUSIVE = the engine could not decide (never on the unchanged tree). known_findings.json lists repaired defects.",
    }
    json.dump(man, open(os.path.join(os.path.dirname(__file__), "MANIFEST.json"), "w"), indent=1)
    print("claimed:", sorted(CHECKS), "n/a:", len(na))

main()

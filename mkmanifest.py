#!/usr/bin/env python3
"""Regenerates MANIFEST.json from the table below (kept in one place so the
manifest stays valid while checks are added)."""
import json, os

TECH = "bounded symbolic execution of the go/ssa form of the real packages + SMT (strings, integers) with cvc5/z3 portfolio; counterexamples replayed natively"
TRUST = ("Trusted: go/types + go/ssa (x/tools v0.29.0); the engine's instruction semantics and its models of "
         "strings/strconv/fmt/errors/sort/regexp-by-template/os.Getenv (every explored path is replayed against the natively "
         "compiled real code and compared, and the regexp and ParseFloat models are compared with the real packages on all short "
         "strings at every run); unsat answers of cvc5 1.0 / z3 4.8.12 / z3 5.1. Bounds are the structural ones written in the harness.")

CHECKS = {
 "C01": ("For every scalar option kind (6), every mode (3) and EVERY value text v (one unconstrained SMT string, no length bound) "
         "the solver shows that --name=v and --name v store exactly v / exactly the strconv conversion, set Called, leave siblings alone, "
         "and that invalid numerals give an error with nil remaining; flags, increments and bare optional-value options likewise.",
         "argv of 1-3 tokens around the option under test; float texts restricted to decimal/special forms with <=20 digits and <=2 exponent digits (hex/underscore forms cut and counted); "),
 "C02": ("Slice and map options with SYMBOLIC, unbounded (min,max), attached or detached first value and 0-2 (thorough 3) following tokens drawn symbolically from "
         "{well-formed value, malformed value, --flag, -, --, command name}: the solver shows that exactly the tokens the statement says are consumed, "
         "values are stored in order (map: text before the first '=' / everything after, last key wins), leftovers are interpreted normally, too few values fail; "
         "definitions with min<1 or max<min are rejected at definition; int ranges a..a+d (d<=3) expand inclusively for all a, also when the option already holds values from an earlier occurrence or an earlier mandatory value; int list elements given as ANY text are stored as exactly what strconv.Atoi yields or rejected; an attached value of ANY shape reaches list and map options verbatim in both spellings.",
         "one occurrence of the option, <=2/3 following tokens, int values are canonical numerals (numeral syntax is C01's subject), malformed values start with a letter outside every numeral syntax, range span <=3 with |a|<=2^62; "),
 "C03": ("Two unconstrained raw tokens (any bytes, any length) over a program with a flag, a string option and a command, in all 18 combinations of "
         "single-dash mode x unknown mode x require-order: on every path where Parse succeeds the solver shows remaining is an order-preserving sub-list of argv, "
         "plain positionals and unknown long options (Pass/Warn) are retained wherever they stand relative to the command token, and the tail behind the first `--` is verbatim; "
         "a single-dash first token holding an unknown option (any of the three modes) is retained; constructed shapes cover positionals/unknowns before and after a command, bundles of unknown letters, bundles whose first letter takes the next token as value and whose second is unknown (with and without require-order), different unknown modes at root and command, and the help option next to an unknown option.",
         "argv of 2 raw tokens, bundles of <=2 letters, letters of 1-2 UTF-8 bytes (wider / invalid sequences are cut and counted); retention rules are necessary conditions only (DESIGN.md C03); "),
 "C04": ("For 18 contexts before `--` (nothing, positional, flag, satisfied option, bare optional-value option of three kinds, slice/map/int-list option with min reached and max not - detached, attached, with one extra value already taken -, an attached value of ANY shape in long and single-dash spelling, command) "
         "and two UNCONSTRAINED tail tokens, in every mode combination, the solver shows Parse succeeds, remaining ends with exactly the tail, no option/Called state "
         "or dispatch target changes because of the tail.",
         "two tail tokens (three in thorough), one context token group or one (thorough: two) unconstrained tokens before `--` (relational harness VerifC04_RawBefore: same state and error-ness with and without the tail); the exempted case (`--` as a still-missing mandatory value) is only checked for returning normally; "),
 "C05": ("Three option names and the typed text are SYMBOLIC strings over [A-Za-z0-9] (pairwise distinct, any length; the third optionally an alias, optionally used after a command token, "
         "long / Normal-short / Bundling one-letter spelling): from the same prefix predicate the solver shows exact names win, a unique prefix acts as the full name with CalledAs = full name, "
         ">=2 candidates without an exact match always give an error listing every candidate with nothing set or called; a second harness resolves the same text at two command levels.",
         "three declared names, one option token (+ its value), default unknown mode; "),
 "C06": ("Relational: 1-2 occurrences of an option of 6 kinds, each spelled by a symbolically chosen alias (long, one ASCII letter, one multibyte letter) vs. the primary name on two fresh definitions "
         "must agree on every value, on remaining and on error-ness; Called is true under every name, CalledAs is the spelling last used, *Var target and Value(x) agree; "
         "12 sibling options of all kinds with SYMBOLIC defaults keep them and report Called false; SetCalled is honoured; one-letter multibyte aliases sharing a first byte address their own option only and ANY undeclared two-byte letter (symbolic) touches nothing; an option declared between two NewCommand calls is Called / CalledAs / valued exactly behind either command.",
         "<=2 occurrences, 3 aliases, values are arbitrary strings (ints: canonical numerals); "),
 "C07": ("Relational, no oracle: in Normal mode -NAME[=v] vs --NAME[=v] for EVERY name text; in Bundling mode -xyz[=v] vs -x -y -z[=v] for declared letters; in SingleDash mode -xREST vs --x=REST for every REST (plus concrete invalid-UTF-8 byte patterns and option letters of 3-4 bytes) "
         "(x one of 5 letters incl. a 2-byte one) and -x vs --x; any token starting with `--` under two different modes: all values, Called, CalledAs, remaining and error-ness must be equal.",
         "one option token plus an optional detached value; bundles of 2-3 declared letters; REST for the int option <=6 bytes; UTF-8 sequences of 1-2 bytes (longer/invalid cut and counted); default unknown mode; "),
 "C08": ("An unknown option (--x, --x=w with SYMBOLIC x matching no declared name as prefix, or -y) placed alone, between known options, before a command token, after one, inside an UnsetOptions+Pass wrapper or a wrapper that inherited its mode, a number-looking unknown (-N for symbolic N, -2.5) behind an int / float list with room, "
         "in 3 modes x 3 unknown modes: Fail gives an error naming it with nil remaining, Warn writes a warning naming it and keeps it in remaining, Pass keeps it silently; surrounding known options take effect.",
         "one unknown token among <=3 other tokens; require-order off; "),
 "C09": ("With require-order, for 6 kinds of satisfied option groups before the stop point, 3 kinds of stop token (positional, unknown option with symbolic name, `-`) and two UNCONSTRAINED tail tokens: "
         "remaining is exactly [stop, t1, t2] and all values/Called equal those of a second run of the prefix alone without require-order; a command-name token before the stop still descends.",
         "two tail tokens (three in thorough), one option group before the stop; relational harness VerifC09_RawBefore: for one (thorough: two) unconstrained tokens in front of a fixed positional and a tail, remaining is a verbatim suffix and the state equals the prefix parsed without require-order; "),
 "C10": ("18 command-line shapes over a 3-level tree (inherited root option, command with child, command without function, UnsetOptions wrapper with own option and child, command-only require-order, optional help command) "
         "with symbolic payloads: exactly one instrumented CommandFn runs (none + error where the command has no function), with the caller's context, the remaining list Parse returned and the parsed own/inherited option values; "
         "a command name as option value, after `--` or after the require-order stop does not select.",
         "fixed tree of depth 3, shapes enumerated in harness c10.go; "),
 "C11": ("Required option at root / inherited / command-own, with or without custom message (SYMBOLIC text), supplied by name, alias, unique abbreviation, environment or not at all, crossed with help requested by option, alias, "
         "abbreviation, help command, `help <topic>`, `help <unknown>`: missing => ErrorParsing carrying the message and no CommandFn; supplied => the addressed CommandFn runs; help => help text of that level written, "
         "ErrorHelpCalled, nothing runs, no missing-required error; unknown topic => error.",
         "tree of depth 2, one required option; "),
 "C12": ("For bool and the six scalar kinds with SYMBOLIC default, environment unset / empty / arbitrary SYMBOLIC text and the option absent, given as --name=v or as --name v with arbitrary v: "
         "command line wins (bool: negated default); else a valid environment text is converted exactly (true/false case-insensitively), Called is true and CalledAs is the variable name; else the default; unset/empty changes nothing; the tree has commands whose names are possible value texts.",
         "single option; environment texts without NUL bytes; Called on an invalid numeric environment text is not asserted (statement silent); "),
 "C13": ("The real Graph.Run is executed by the engine's interpreter with goroutines, channels, select, mutexes and time.Sleep modelled; for every DAG shape of 3 tasks, every outcome (nil / error / ErrorSkipParents) of every task, "
         "buffered output on/off - and for 2 tasks with up to 2 retries in parallel, bounded and serial mode - EVERY order in which running tasks can be delivered to the scheduler loop is explored: "
         "a task is entered only after each dependency exited nil; attempts are sequential, at most retries+1, none after a success (also when the output writer refuses every Write); solver-decided lemmas over SYMBOLIC retry and failure counts, including negative retry counts.",
         "3 tasks (2 with retries); all choices are finite-domain and enumerated by the engine, no SMT query is needed; scheduling policy 'maximal intervals' (DESIGN.md 2.8): tasks count as entered as early and returned as late as any real schedule allows; memory visibility rests on Go's happens-before edges (assumed); "),
 "C14": ("Same exploration: after a final-attempt error or an ErrorSkipParents no transitive dependent is ever entered; Run returns nil iff no task failed, otherwise an *Errors value holding the task's error and exactly one ErrorTaskSkipped entry per never-started task that is not above a skip-parents task; "
         "cancellation before Run or by a running task: started tasks finish, nothing that was not ready at the cancel point starts, an unfinished graph makes Run return an error and every never-started task is accounted for by one ErrorTaskSkipped entry; the skip report over all graphs of 4 tasks with two skipping (thorough: failing) tasks.",
         "3 tasks (2 with one retry in the three modes); cancellation by one task (when it starts or when it ends) or before Run; "),
 "C15": ("Four independent tasks contending for 1-3 slots or serial mode, with first-attempt failures and retries, every completion order: the number of task functions inside never exceeds the limit (1 in serial mode); "
         "the same bound while one of the tasks cancels the context (queued tasks must not start without a slot); two graphs run concurrently from two goroutines and sharing one Task (either graph serial, the ID first known through a placeholder) never execute it twice at once; "
         "with buffered output every attempt's output reaches the writer as one contiguous block and every attempt is flushed, also for 100 kB attempts through a writer whose every Write is a scheduling point.",
         "4 tasks, limits 1-3; two graphs sharing one task; interleavings between two scheduler loops are settled deterministically after each delivery, not enumerated; "),
 "C16": ("All sequences of 3 (thorough 4) construction calls, each a symbolic choice of AddTask / TaskDependsOn / TaskRetries over 3 tasks (re-adds, duplicate and self edges), followed by Run under every completion order: "
         "Run returns (the engine reports a hang when the scheduler loop spins with nothing in flight, replayed natively under a time limit), a cycle is rejected before any task starts with ErrorGraphHasCycle, acyclic graphs run every task once; "
         "DepthFirstSort on every shape: each vertex once, dependencies first; work conservation checked at every idle point of the scheduler loop over all shapes/outcomes/modes; Run also returns when the output writer refuses every Write; a task without a function is rejected instead of being called.",
         "3 tasks, histories of 3/4 calls; "),
 "C17": ("Over a fixed tree (aliases, valid and suggested values, two command levels with static suggestions, wrapper, help command) with a SYMBOLIC last word (any bytes without white space), 7 shapes of earlier words (incl. a wrapper with an option of its own and its sub command), bash and zsh: "
         "the offered names are exactly the declared option names/aliases (resp. commands and suggestions) of the level reached that start with the typed text, sorted, each accepted by a normal Parse at that position; "
         "after --name= exactly the matching values (bash: the part after '='); no CommandFn runs and the exit path is taken.",
         "fixed tree; <=3 earlier words; last word without '=' in the name harness; dynamic completion functions are not part of the harness; "),
 "C18": ("12 option kinds x required (none / default / custom message) x env binding x 0-2 aliases x description (absent / SYMBOLIC single line / multi-line) x level (root / inheriting command) x 0-2 sub commands x help command, with SYMBOLIC default text, plain and *Var declaration forms (the variable holding another value): "
         "exactly one entry per option carrying all aliases, none for an alias alone, under REQUIRED PARAMETERS iff required, default and env shown as stated, mentioned in the synopsis (bracketed iff optional), each sub command once with its description, help not listed; "
         "the text written via --help, -?, the help command equals Help().",
         "one option under test plus two context options; descriptions and defaults free of newline, '[' and '-'; "),
 "C19": ("Every instruction that can panic is checked and every loop is bounded on all explored paths: two UNCONSTRAINED raw tokens over the small program in all modes, one raw token (+ value / terminator / dash / command) over all 12 option kinds, "
         "COMP_LINE with a raw last word for both targets, concrete tokens with invalid UTF-8 in all modes, Dispatch and Help() after every successful Parse, int ranges whose ends reach MaxInt64 / MinInt64; a failed Parse returns nil remaining.",
         "argv of <=2 tokens, bundles <=2 letters, numerals <=12 digits and no '..' in raw tokens (ranges have their own harness), quick tier restricts mode combinations (all 18 in thorough); "),
 "C20": ("14 scenarios with >=2 entries in every table (missing required options at root and on a command (also with names that differ only in letter case), unknown options in Fail and Warn mode, 3 ambiguous candidates, help text, `help <abbreviated topic>`, abbreviated option with attached value, option and command completion) are run under the canonical map order and under every explored "
         "iteration order of every map ranged over (all permutations up to 3 entries, rotations+reverse beyond): all observable output must be identical.",
         "one iteration order per map object per run; cross-process hidden state other than map order is not modelled; natively the scenario is repeated 300 times; "),
}

NOT_YET = "check not built yet in this session (work in progress; see DESIGN.md section 12)"

def main():
    props = [json.loads(l) for l in open(os.path.join(os.path.dirname(__file__), "properties.jsonl"))]
    checks, na = [], []
    for p in props:
        pid = p["id"]
        if pid in CHECKS:
            text, bounds = CHECKS[pid]
            checks.append({
                "property_id": pid,
                "quick_cmd": f"./check {pid} quick",
                "thorough_cmd": f"./check {pid} thorough",
                "evidence_file": f"/verif/evidence/{pid}.json",
                "replay_cmd_template": "./check replay {path}",
                "engine": "symgo",
                "level_claimed": {"category": "model_checking", "text": text, "design_ref": "DESIGN.md section 4 (" + pid + ")"},
                "level_note": "Bounds: " + bounds + TRUST,
                "technique": TECH,
            })
        else:
            na.append({"property_id": pid, "reason": NOT_YET})
    man = {
        "version": 1,
        "setup_cmd": "mkdir -p bin work && cd engine && GOFLAGS=-mod=mod GOPROXY=off GOSUMDB=off GOTOOLCHAIN=local go build -o ../bin/symgo .",
        "hooks": {
            "guard": "verif",
            "enable": "harness files (//go:build verif) are injected by go/packages and go test -overlay as /repo/zz_verif_*.go; /repo itself is never written and contains no hook code",
            "baseline_off_cmd": "cd /repo && GOFLAGS=-mod=mod go test -json -vet=off -count=1 -timeout 25m ./...",
            "source_commits": [],
            "add_only": True,
        },
        "engines": [{"name": "symgo", "path": "/verif/engine", "serves_properties": sorted(CHECKS), "kind_free_text": "symbolic executor over go/ssa with SMT string/integer encoding, decision-trace re-execution, native replay"}],
        "checks": checks,
        "not_applicable": na,
        "notes": "exit 0 = property held on every explored path; exit 1 + VIOLATION line = natively reproduced counterexample; exit 2 + INCONCLUSIVE = the engine could not decide (never on the unchanged tree). known_findings.json lists repaired defects.",
    }
    json.dump(man, open(os.path.join(os.path.dirname(__file__), "MANIFEST.json"), "w"), indent=1)
    print("claimed:", sorted(CHECKS), "n/a:", len(na))

main()

package main

// Loading the real packages from the repository's current working tree with
// the harness files injected by overlay (the repository is never written).

import (
	"fmt"
	"go/constant"
	"os"
	"path/filepath"
	"regexp"
	"sort"
	"strings"

	"golang.org/x/tools/go/packages"
	"golang.org/x/tools/go/ssa"
	"golang.org/x/tools/go/ssa/ssautil"
)

const modulePath = "github.com/DavidGamba/go-getoptions"

type harnessFiles struct {
	// virtual path in the repository -> real path on disk
	overlay map[string]string
}

// prepareOverlay materialises the harness + runtime files for both packages
// into workDir and returns the overlay mapping.
func prepareOverlay(repo, verifDir, workDir string) (*harnessFiles, error) {
	hf := &harnessFiles{overlay: map[string]string{}}
	type pk struct{ sub, name string }
	for _, p := range []pk{{"", "getoptions"}, {"dag", "dag"}} {
		src := filepath.Join(verifDir, "harness", p.name)
		ents, err := os.ReadDir(src)
		if err != nil {
			return nil, err
		}
		for _, e := range ents {
			if !strings.HasSuffix(e.Name(), ".go") {
				continue
			}
			virt := filepath.Join(repo, p.sub, "zz_verif_"+e.Name())
			hf.overlay[virt] = filepath.Join(src, e.Name())
		}
		// registry of entry points
		var names []string
		reFn := regexp.MustCompile(`(?m)^func (Verif\w+)\(\)`)
		for _, e := range ents {
			if !strings.HasSuffix(e.Name(), ".go") {
				continue
			}
			data, err := os.ReadFile(filepath.Join(src, e.Name()))
			if err != nil {
				return nil, err
			}
			for _, mm := range reFn.FindAllStringSubmatch(string(data), -1) {
				names = append(names, mm[1])
			}
		}
		sort.Strings(names)
		var rb strings.Builder
		rb.WriteString("//go:build verif\n\npackage " + p.name + "\n\nvar vEntries = map[string]func(){\n")
		for _, n := range names {
			fmt.Fprintf(&rb, "\t%q: %s,\n", n, n)
		}
		rb.WriteString("}\n")
		regOut := filepath.Join(workDir, p.name+"_zz_verif_registry.go")
		if err := os.WriteFile(regOut, []byte(rb.String()), 0o644); err != nil {
			return nil, err
		}
		hf.overlay[filepath.Join(repo, p.sub, "zz_verif_registry.go")] = regOut
		for _, tm := range []struct{ tmpl, out string }{{"rt.go.tmpl", "zz_verif_rt.go"}, {"rt_test.go.tmpl", "zz_verif_rt_test.go"}} {
			data, err := os.ReadFile(filepath.Join(verifDir, "harness", "rt", tm.tmpl))
			if err != nil {
				return nil, err
			}
			out := filepath.Join(workDir, p.name+"_"+tm.out)
			txt := strings.ReplaceAll(string(data), "PKGNAME", p.name)
			if err := os.WriteFile(out, []byte(txt), 0o644); err != nil {
				return nil, err
			}
			hf.overlay[filepath.Join(repo, p.sub, tm.out)] = out
		}
	}
	return hf, nil
}

func loadWorld(repo string, hf *harnessFiles, cfg Config) (*world, error) {
	ov := map[string][]byte{}
	for virt, real := range hf.overlay {
		if strings.HasSuffix(virt, "_test.go") {
			continue
		}
		data, err := os.ReadFile(real)
		if err != nil {
			return nil, err
		}
		ov[virt] = data
	}
	pcfg := &packages.Config{
		Mode:       packages.LoadAllSyntax,
		Dir:        repo,
		BuildFlags: []string{"-tags=verif"},
		Overlay:    ov,
		Env:        append(os.Environ(), "GOFLAGS=-mod=mod", "GOPROXY=off", "GOSUMDB=off", "GOTOOLCHAIN=local"),
	}
	pkgs, err := packages.Load(pcfg, ".", "./dag")
	if err != nil {
		return nil, err
	}
	var errs []string
	packages.Visit(pkgs, nil, func(p *packages.Package) {
		for _, e := range p.Errors {
			errs = append(errs, e.Error())
		}
	})
	if len(errs) > 0 {
		return nil, fmt.Errorf("the repository (with harness overlay) does not type-check:\n%s", strings.Join(errs, "\n"))
	}
	prog, _ := ssautil.AllPackages(pkgs, ssa.InstantiateGenerics)
	prog.Build()
	w := &world{prog: prog, modulePkgs: map[*ssa.Package]bool{}, pkgByPath: map[string]*ssa.Package{}, cfg: cfg, regexCache: map[string]*regexTemplate{}}
	for _, p := range prog.AllPackages() {
		w.pkgByPath[p.Pkg.Path()] = p
		if p.Pkg.Path() == modulePath || strings.HasPrefix(p.Pkg.Path(), modulePath+"/") {
			w.modulePkgs[p] = true
		}
	}
	return w, nil
}

// entriesFor returns the harness entry functions Verif<prop>_* of a package.
func (w *world) entriesFor(prop string) (entries []*ssa.Function) {
	for p := range w.modulePkgs {
		for name, mem := range p.Members {
			if f, ok := mem.(*ssa.Function); ok && strings.HasPrefix(name, "Verif"+prop+"_") {
				entries = append(entries, f)
			}
		}
	}
	sort.Slice(entries, func(i, j int) bool { return entries[i].Name() < entries[j].Name() })
	return
}

func (w *world) allEntries() map[string][]string {
	res := map[string][]string{}
	for p := range w.modulePkgs {
		for name, mem := range p.Members {
			if _, ok := mem.(*ssa.Function); ok && strings.HasPrefix(name, "Verif") {
				res[p.Pkg.Name()] = append(res[p.Pkg.Name()], name)
			}
		}
	}
	for k := range res {
		sort.Strings(res[k])
	}
	return res
}

// setInitOrder: the package that owns the entry, initialised through its own
// init function (which initialises its module dependencies first).
func (w *world) setInitOrder(entry *ssa.Function) {
	w.initOrder = []*ssa.Package{entry.Pkg}
	w.harnessPkg = entry.Pkg
}

// regexConstants finds the patterns given to regexp.MustCompile in module code.
func (w *world) regexConstants() []string {
	seen := map[string]bool{}
	for p := range w.modulePkgs {
		for _, mem := range p.Members {
			f, ok := mem.(*ssa.Function)
			if !ok {
				continue
			}
			visitFuncs(f, func(fn *ssa.Function) {
				for _, b := range fn.Blocks {
					for _, in := range b.Instrs {
						c, ok := in.(*ssa.Call)
						if !ok {
							continue
						}
						callee := c.Call.StaticCallee()
						if callee == nil || callee.String() != "regexp.MustCompile" {
							continue
						}
						if k, ok := c.Call.Args[0].(*ssa.Const); ok && k.Value != nil && k.Value.Kind() == constant.String {
							seen[constant.StringVal(k.Value)] = true
						}
					}
				}
			})
		}
	}
	return sortedKeys(seen)
}

func visitFuncs(f *ssa.Function, fn func(*ssa.Function)) {
	fn(f)
	for _, a := range f.AnonFuncs {
		visitFuncs(a, fn)
	}
}

// reachLabels collects the constant labels of vReach calls statically reachable
// from entry through harness code.
func (w *world) reachLabels(entry *ssa.Function) []string {
	labels := map[string]bool{}
	seen := map[*ssa.Function]bool{}
	var visit func(f *ssa.Function)
	visit = func(f *ssa.Function) {
		if f == nil || seen[f] || f.Blocks == nil {
			return
		}
		seen[f] = true
		pos := w.prog.Fset.Position(f.Pos())
		if !strings.Contains(filepath.Base(pos.Filename), "zz_verif_") {
			return
		}
		for _, b := range f.Blocks {
			for _, in := range b.Instrs {
				switch c := in.(type) {
				case *ssa.Call:
					callee := c.Call.StaticCallee()
					if callee != nil && callee.Name() == "vReach" {
						if k, ok := c.Call.Args[0].(*ssa.Const); ok {
							labels[constant.StringVal(k.Value)] = true
						}
					}
					visit(callee)
				case *ssa.MakeClosure:
					visit(c.Fn.(*ssa.Function))
				}
			}
		}
		for _, a := range f.AnonFuncs {
			visit(a)
		}
	}
	visit(entry)
	return sortedKeys(labels)
}

package main

// fmt.Sprintf family for concrete format strings and a small set of verbs.

import (
	"fmt"
	"go/types"
	"math"
	"strconv"
	"strings"
)

// renderDefault renders an argument the way %v / %s do for the supported types.
func (m *machine) renderDefault(fr *frame, verb byte, a value) *Term {
	itf, ok := a.(iface)
	if !ok {
		panic(fmt.Sprintf("renderDefault: %T", a))
	}
	if itf.t == nil {
		if verb == 'v' {
			return mkStr("<nil>")
		}
		return mkStr("%!" + string(verb) + "(<nil>)")
	}
	return m.renderTyped(fr, verb, itf.t, itf.v)
}

func (m *machine) renderTyped(fr *frame, verb byte, t types.Type, v value) *Term {
	if types.Implements(t, errorIface) {
		if p, ok := v.(*value); ok && p == nil {
			return mkStr("<nil>")
		}
		return toTerm(m.errorString(fr, iface{t: t, v: v}))
	}
	// Stringer
	if ms := m.w.prog.MethodSets.MethodSet(t); ms != nil {
		if sel := ms.Lookup(nil, "String"); sel != nil {
			if sig, ok := sel.Type().(*types.Signature); ok && sig.Params().Len() == 0 && sig.Results().Len() == 1 && isStringType(sig.Results().At(0).Type()) {
				if f := m.w.prog.MethodValue(sel); f != nil && m.w.interpretable(f) {
					return toTerm(m.call(fr, 0, f, []value{v}))
				}
			}
		}
	}
	switch u := t.Underlying().(type) {
	case *types.Basic:
		switch {
		case u.Info()&types.IsString != 0:
			return toTerm(v)
		case u.Info()&types.IsInteger != 0:
			if verb == 's' {
				panic(cut{"%s of integer"})
			}
			return itoaTerm(toTerm(v))
		case u.Info()&types.IsBoolean != 0:
			switch b := v.(type) {
			case bool:
				return mkStr(strconv.FormatBool(b))
			case *Term:
				return mkIte(b, mkStr("true"), mkStr("false"))
			}
		case u.Info()&types.IsFloat != 0:
			switch f := v.(type) {
			case float64:
				return mkStr(fmt.Sprintf("%v", f))
			case *Term:
				return rawApp("f64_fmt", SStr, f)
			}
		}
	case *types.Slice:
		sl, ok := v.([]value)
		if !ok {
			panic(cut{"formatting of unsupported slice"})
		}
		parts := []*Term{mkStr("[")}
		for i, e := range sl {
			if i > 0 {
				parts = append(parts, mkStr(" "))
			}
			parts = append(parts, m.renderTyped(fr, verb, u.Elem(), e))
		}
		parts = append(parts, mkStr("]"))
		return mkConcat(parts...)
	case *types.Interface:
		return m.renderDefault(fr, verb, v)
	case *types.Map:
		mp := v.(*mapV)
		if mp == nil || len(mp.keys) == 0 {
			return mkStr("map[]")
		}
		// fmt sorts map keys; only concrete keys are supported
		type kv struct {
			k string
			v *Term
		}
		var kvs []kv
		for i := range mp.keys {
			ks, ok := mp.keys[i].(string)
			if !ok {
				panic(cut{"formatting of map with symbolic keys"})
			}
			kvs = append(kvs, kv{ks, m.renderTyped(fr, verb, u.Elem(), mp.vals[i])})
		}
		for i := 1; i < len(kvs); i++ {
			for j := i; j > 0 && kvs[j].k < kvs[j-1].k; j-- {
				kvs[j], kvs[j-1] = kvs[j-1], kvs[j]
			}
		}
		parts := []*Term{mkStr("map[")}
		for i, e := range kvs {
			if i > 0 {
				parts = append(parts, mkStr(" "))
			}
			parts = append(parts, mkStr(e.k+":"), e.v)
		}
		parts = append(parts, mkStr("]"))
		return mkConcat(parts...)
	case *types.Pointer:
		if p, ok := v.(*value); ok && p == nil {
			return mkStr("<nil>")
		}
		return mkStr("0xc000000000")
	}
	panic(cut{"formatting of unsupported type " + t.String()})
}

// format implements Sprintf; returns the text and the operands of %w verbs.
func (m *machine) format(fr *frame, format value, args []value) (*Term, []iface) {
	if ft, ok := format.(*Term); ok && ft.Op != "cs" {
		return m.formatSymbolic(fr, ft, args)
	}
	f := concreteStr(format, "format string")
	return m.formatConcrete(fr, f, args)
}

// formatSymbolic: a format string that is a concatenation of constants and
// symbolic pieces free of '%' (a symbolic piece containing '%' is outside the
// bound): the symbolic pieces are literal text.
func (m *machine) formatSymbolic(fr *frame, ft *Term, args []value) (*Term, []iface) {
	var out []*Term
	var wrapped []iface
	argi := 0
	for _, p := range concatParts(ft) {
		if p.Op != "cs" {
			if m.truth(fromTerm(mkContains(p, mkStr("%")))) {
				panic(cut{"format string with a symbolic part containing '%' (outside bound)"})
			}
			out = append(out, p)
			continue
		}
		// count the verbs of this constant piece to hand it the right operands
		n := 0
		for i := 0; i < len(p.S); i++ {
			if p.S[i] == '%' {
				if i+1 < len(p.S) && p.S[i+1] == '%' {
					i++
					continue
				}
				n++
			}
		}
		hi := argi + n
		if hi > len(args) {
			hi = len(args)
		}
		sub := args[argi:hi]
		if n > len(sub) {
			// missing operands are reported by the concrete formatter
		}
		t, w := m.formatConcreteN(fr, p.S, sub, n)
		out = append(out, t)
		wrapped = append(wrapped, w...)
		argi = hi
	}
	if argi < len(args) {
		out = append(out, mkStr("%!(EXTRA ...)"))
	}
	return mkConcat(out...), wrapped
}

func (m *machine) formatConcrete(fr *frame, f string, args []value) (*Term, []iface) {
	return m.formatConcreteN(fr, f, args, -1)
}

// formatConcreteN formats with a concrete format string; when expect >= 0 the
// piece is part of a larger format and surplus operands are not reported here.
func (m *machine) formatConcreteN(fr *frame, f string, args []value, expect int) (*Term, []iface) {
	var parts []*Term
	var wrapped []iface
	argi := 0
	for i := 0; i < len(f); {
		j := strings.IndexByte(f[i:], '%')
		if j < 0 {
			parts = append(parts, mkStr(f[i:]))
			break
		}
		parts = append(parts, mkStr(f[i:i+j]))
		i += j + 1
		if i >= len(f) {
			parts = append(parts, mkStr("%!(NOVERB)"))
			break
		}
		// flags / width / precision
		start := i
		for i < len(f) && strings.IndexByte("+-# 0123456789.", f[i]) >= 0 {
			i++
		}
		flags := f[start:i]
		if i >= len(f) {
			parts = append(parts, mkStr("%!(NOVERB)"))
			break
		}
		verb := f[i]
		i++
		if verb == '%' {
			parts = append(parts, mkStr("%"))
			continue
		}
		if argi >= len(args) {
			parts = append(parts, mkStr("%!"+string(verb)+"(MISSING)"))
			continue
		}
		a := args[argi]
		argi++
		if flags != "" {
			// width/flags: concrete operands only, rendered natively
			parts = append(parts, mkStr(m.nativeFormat("%"+flags+string(verb), a)))
			continue
		}
		switch verb {
		case 's', 'v':
			parts = append(parts, m.renderDefault(fr, verb, a))
		case 'w':
			itf := a.(iface)
			if itf.t != nil && types.Implements(itf.t, errorIface) {
				wrapped = append(wrapped, itf)
				parts = append(parts, m.renderDefault(fr, 'v', a))
			} else {
				parts = append(parts, mkStr("%!w("), m.renderDefault(fr, 'v', a), mkStr(")"))
			}
		case 'd':
			itf := a.(iface)
			if _, ok := intKindOf(itf.t); !ok {
				panic(cut{"%d of non-integer"})
			}
			parts = append(parts, itoaTerm(toTerm(itf.v)))
		case 't':
			parts = append(parts, m.renderDefault(fr, 'v', a))
		case 'f':
			itf := a.(iface)
			switch x := itf.v.(type) {
			case float64:
				parts = append(parts, mkStr(fmt.Sprintf("%f", x)))
			case *Term:
				parts = append(parts, rawApp("f64_fmt", SStr, x))
			default:
				panic(cut{"%f of non-float"})
			}
		case 'q', 'T', 'c', 'x', 'p':
			parts = append(parts, mkStr(m.nativeFormat("%"+string(verb), a)))
		default:
			panic(cut{"unsupported format verb %" + string(verb)})
		}
	}
	if argi < len(args) && expect < 0 {
		parts = append(parts, mkStr("%!(EXTRA ...)"))
	}
	return mkConcat(parts...), wrapped
}

// nativeFormat formats one concrete operand with the real fmt package.
func (m *machine) nativeFormat(spec string, a value) string {
	g, ok := m.toNative(a)
	if !ok {
		panic(cut{"format verb " + spec + " on a symbolic or unsupported operand"})
	}
	return fmt.Sprintf(spec, g)
}

func (m *machine) toNative(a value) (interface{}, bool) {
	itf, ok := a.(iface)
	if !ok {
		return nil, false
	}
	if itf.t == nil {
		return nil, true
	}
	return m.toNativeTyped(itf.t, itf.v)
}

func (m *machine) toNativeTyped(t types.Type, v value) (interface{}, bool) {
	switch u := t.Underlying().(type) {
	case *types.Basic:
		switch x := v.(type) {
		case string:
			return x, true
		case bool:
			return x, true
		case float64:
			return x, true
		case int64:
			switch u.Kind() {
			case types.Int32:
				return int32(x), true
			case types.Uint8:
				return uint8(x), true
			}
			return int(x), true
		}
		return nil, false
	case *types.Slice:
		sl, ok := v.([]value)
		if !ok {
			return nil, false
		}
		if isStringType(u.Elem()) {
			out := make([]string, len(sl))
			for i, e := range sl {
				s, ok := e.(string)
				if !ok {
					return nil, false
				}
				out[i] = s
			}
			return out, true
		}
		out := make([]interface{}, len(sl))
		for i, e := range sl {
			g, ok := m.toNativeTyped(u.Elem(), e)
			if !ok {
				return nil, false
			}
			out[i] = g
		}
		return out, true
	}
	return nil, false
}

func ifaceArgs(v value) []value {
	if v == nil {
		return nil
	}
	return v.([]value)
}

func iSprintf(m *machine, fr *frame, args []value) value {
	t, _ := m.format(fr, args[0], ifaceArgs(args[1]))
	return fromTerm(t)
}

func iErrorf(m *machine, fr *frame, args []value) value {
	t, wrapped := m.format(fr, args[0], ifaceArgs(args[1]))
	msg := fromTerm(t)
	switch len(wrapped) {
	case 0:
		return m.errorsNew(msg)
	case 1:
		ty, p := m.newStruct("fmt", "wrapError", msg, wrapped[0])
		return iface{t: ty, v: p}
	default:
		var errs []value
		for _, w := range wrapped {
			errs = append(errs, w)
		}
		ty, p := m.newStruct("fmt", "wrapErrors", msg, errs)
		return iface{t: ty, v: p}
	}
}

func (m *machine) sprint(fr *frame, args []value, ln bool) *Term {
	var parts []*Term
	prevString := true
	for i, a := range args {
		itf := a.(iface)
		isStr := itf.t != nil && isStringType(itf.t)
		if ln {
			if i > 0 {
				parts = append(parts, mkStr(" "))
			}
		} else if i > 0 && !isStr && !prevString {
			parts = append(parts, mkStr(" "))
		}
		parts = append(parts, m.renderDefault(fr, 'v', a))
		prevString = isStr
	}
	if ln {
		parts = append(parts, mkStr("\n"))
	}
	return mkConcat(parts...)
}

func iSprint(m *machine, fr *frame, args []value) value {
	return fromTerm(m.sprint(fr, ifaceArgs(args[0]), false))
}

// writeTo delivers text to an io.Writer value.
func (m *machine) writeTo(fr *frame, w value, text *Term) value {
	itf := w.(iface)
	if itf.t == nil {
		panic(m.runtimeError("invalid memory address or nil pointer dereference (nil io.Writer)"))
	}
	n := fromTerm(mkLen(text))
	switch x := itf.v.(type) {
	case *opaque:
		m.appendWriter(x.kind, text)
		return tuple{n, iface{}}
	case *value:
		if x != nil {
			if op, ok := (*x).(*opaque); ok {
				m.appendWriter(op.kind, text)
				return tuple{n, iface{}}
			}
			if bufferWrite(m, itf.t, x, text) {
				return tuple{n, iface{}}
			}
		}
	}
	// a writer implemented by interpretable code (a harness type): call its Write
	if cs, ok := fromTerm(text).(string); ok {
		if fn := m.w.prog.LookupMethod(itf.t, nil, "Write"); fn != nil && m.w.interpretable(fn) {
			return m.callSSA(fr, 0, fn, []value{itf.v, bytesValue(cs)}, nil)
		}
	}
	panic(cut{"write to unsupported io.Writer of type " + itf.t.String()})
}

func (m *machine) appendWriter(name string, text *Term) {
	p, ok := m.writers[name]
	if !ok {
		v := value("")
		p = &v
		m.writers[name] = p
	}
	*p = fromTerm(mkConcat(toTerm(*p), text))
}

func iFprintf(m *machine, fr *frame, args []value) value {
	t, _ := m.format(fr, args[1], ifaceArgs(args[2]))
	return m.writeTo(fr, args[0], t)
}

func iFprint(m *machine, fr *frame, args []value) value {
	return m.writeTo(fr, args[0], m.sprint(fr, ifaceArgs(args[1]), false))
}

func iFprintln(m *machine, fr *frame, args []value) value {
	return m.writeTo(fr, args[0], m.sprint(fr, ifaceArgs(args[1]), true))
}

var _ = math.Abs

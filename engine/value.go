package main

// Value model: concrete structure with concrete-or-symbolic leaves.
//
//   bool / *Term(SBool)       Go bool
//   int64 / *Term(SInt)       all Go integer kinds (static type decides wrap)
//   float64 / *Term(SF64)     float64, float32
//   string / *Term(SStr)      Go string; one SMT char = one byte
//   *value                    pointer (to variable, field, element)
//   structure, array          aggregates held inside cells
//   []value                   slice (concrete length)
//   *mapV                     map (insertion ordered association list)
//   *chanV                    channel
//   iface                     interface value
//   *closure, *ssa.Function, *ssa.Builtin   functions
//   tuple                     multiple results
//   *opaque                   stdlib objects the engine does not look into
//   *runesV                   lazily decoded []rune of a symbolic string

import (
	"bytes"
	"fmt"
	"go/types"
	"math"
	"strings"

	"golang.org/x/tools/go/ssa"
)

type value interface{}

type tuple []value
type array []value
type structure []value

type iface struct {
	t types.Type
	v value
}

type closure struct {
	Fn  *ssa.Function
	Env []value
}

type opaque struct {
	kind string
	data interface{}
}

type mapV struct {
	id   int
	keys []value
	vals []value
	kt   types.Type
}

type bad struct{}

// runeStr is a symbolic rune known only through its UTF-8 encoding.
type runeStr struct{ enc *Term }

// runesV is []rune(s) of a symbolic string s assumed to be valid UTF-8.
type runesV struct {
	s *Term
}

func isSym(v value) bool {
	_, ok := v.(*Term)
	return ok
}

func asInt64(v value) int64 {
	switch v := v.(type) {
	case int64:
		return v
	case *Term:
		if v.Op == "ci" {
			return v.I
		}
		panic(cut{"symbolic integer where a concrete one is required: " + v.key})
	}
	panic(fmt.Sprintf("asInt64: %T", v))
}

func toTerm(v value) *Term {
	switch v := v.(type) {
	case *Term:
		return v
	case bool:
		return mkBool(v)
	case int64:
		return mkInt(v)
	case string:
		return mkStr(v)
	case float64:
		return f64Const(v)
	}
	panic(fmt.Sprintf("toTerm: %T", v))
}

// fromTerm turns constant terms back into concrete values.
func fromTerm(t *Term) value {
	switch t.Op {
	case "cb":
		return t.B
	case "ci":
		if t.Sort == SF64 {
			return math.Float64frombits(uint64(t.I))
		}
		return t.I
	case "cs":
		return t.S
	}
	return t
}

func f64Const(f float64) *Term { return mkF64(f64bits(f)) }

func zero(t types.Type) value {
	switch t := t.(type) {
	case *types.Basic:
		if t.Kind() == types.UntypedNil {
			panic("untyped nil has no zero value")
		}
		if t.Info()&types.IsUntyped != 0 {
			t = types.Default(t).(*types.Basic)
		}
		switch {
		case t.Info()&types.IsBoolean != 0:
			return false
		case t.Info()&types.IsInteger != 0:
			return int64(0)
		case t.Info()&types.IsFloat != 0:
			return float64(0)
		case t.Info()&types.IsString != 0:
			return ""
		case t.Kind() == types.UnsafePointer:
			return (*value)(nil)
		case t.Info()&types.IsComplex != 0:
			return complex128(0)
		}
		panic(fmt.Sprint("zero for unexpected basic type: ", t))
	case *types.Pointer:
		return (*value)(nil)
	case *types.Array:
		a := make(array, t.Len())
		for i := range a {
			a[i] = zero(t.Elem())
		}
		return a
	case *types.Named, *types.Alias:
		return zero(t.Underlying())
	case *types.Interface:
		return iface{}
	case *types.Slice:
		return []value(nil)
	case *types.Struct:
		s := make(structure, t.NumFields())
		for i := range s {
			s[i] = zero(t.Field(i).Type())
		}
		return s
	case *types.Tuple:
		if t.Len() == 1 {
			return zero(t.At(0).Type())
		}
		s := make(tuple, t.Len())
		for i := range s {
			s[i] = zero(t.At(i).Type())
		}
		return s
	case *types.Chan:
		return (*chanV)(nil)
	case *types.Map:
		return (*mapV)(nil)
	case *types.Signature:
		return (*ssa.Function)(nil)
	}
	panic(fmt.Sprint("zero: unexpected ", t))
}

func load(T types.Type, addr *value) value {
	switch T := T.Underlying().(type) {
	case *types.Struct:
		v := (*addr).(structure)
		a := make(structure, len(v))
		for i := range a {
			a[i] = load(T.Field(i).Type(), &v[i])
		}
		return a
	case *types.Array:
		v := (*addr).(array)
		a := make(array, len(v))
		for i := range a {
			a[i] = load(T.Elem(), &v[i])
		}
		return a
	default:
		return *addr
	}
}

func store(T types.Type, addr *value, v value) {
	switch T := T.Underlying().(type) {
	case *types.Struct:
		lhs := (*addr).(structure)
		rhs := v.(structure)
		for i := range lhs {
			store(T.Field(i).Type(), &lhs[i], rhs[i])
		}
	case *types.Array:
		lhs := (*addr).(array)
		rhs := v.(array)
		for i := range lhs {
			store(T.Elem(), &lhs[i], rhs[i])
		}
	default:
		*addr = v
	}
}

func copyVal(v value) value {
	switch v := v.(type) {
	case structure:
		a := make(structure, len(v))
		for i := range v {
			a[i] = copyVal(v[i])
		}
		return a
	case array:
		a := make(array, len(v))
		for i := range v {
			a[i] = copyVal(v[i])
		}
		return a
	}
	return v
}

func sameType(x, y types.Type) bool {
	if x == nil {
		return y == nil
	}
	return y != nil && types.Identical(x, y)
}

// equals returns a bool or a *Term(SBool).
func equals(t types.Type, x, y value) value {
	if xt, ok := x.(*Term); ok {
		return fromTerm(mkEq(xt, toTerm(y)))
	}
	if yt, ok := y.(*Term); ok {
		return fromTerm(mkEq(toTerm(x), yt))
	}
	switch x := x.(type) {
	case bool:
		return x == y.(bool)
	case int64:
		return x == y.(int64)
	case float64:
		return x == y.(float64)
	case complex128:
		return x == y.(complex128)
	case string:
		return x == y.(string)
	case *value:
		return x == y.(*value)
	case *chanV:
		return x == y.(*chanV)
	case *mapV:
		return x == y.(*mapV)
	case *opaque:
		yo, ok := y.(*opaque)
		return ok && x == yo
	case structure:
		ys := y.(structure)
		tS := t.Underlying().(*types.Struct)
		var conj []*Term
		for i := 0; i < tS.NumFields(); i++ {
			r := equals(tS.Field(i).Type(), x[i], ys[i])
			if b, ok := r.(bool); ok {
				if !b {
					return false
				}
				continue
			}
			conj = append(conj, r.(*Term))
		}
		if len(conj) == 0 {
			return true
		}
		return fromTerm(mkAnd(conj...))
	case array:
		ya := y.(array)
		tE := t.Underlying().(*types.Array).Elem()
		var conj []*Term
		for i := range x {
			r := equals(tE, x[i], ya[i])
			if b, ok := r.(bool); ok {
				if !b {
					return false
				}
				continue
			}
			conj = append(conj, r.(*Term))
		}
		if len(conj) == 0 {
			return true
		}
		return fromTerm(mkAnd(conj...))
	case iface:
		yi := y.(iface)
		if !sameType(x.t, yi.t) {
			return false
		}
		if x.t == nil {
			return true
		}
		return equals(x.t, x.v, yi.v)
	case *ssa.Function:
		// only comparison with nil is legal
		yf, ok := y.(*ssa.Function)
		return ok && x == yf
	case *closure:
		yc, ok := y.(*closure)
		return ok && x == yc
	case []value:
		// only comparison with nil
		ys, ok := y.([]value)
		return ok && x == nil && ys == nil
	case *runeStr:
		panic(cut{"comparison of symbolic rune"})
	}
	panic(fmt.Sprintf("equals: uncomparable %T (type %v)", x, t))
}

func isNilValue(v value) bool {
	switch v := v.(type) {
	case *value:
		return v == nil
	case []value:
		return v == nil
	case *mapV:
		return v == nil
	case *chanV:
		return v == nil
	case iface:
		return v.t == nil
	case *ssa.Function:
		return v == nil
	case *closure:
		return v == nil
	case nil:
		return true
	}
	return false
}

func writeValue(buf *bytes.Buffer, v value, depth int) {
	if depth > 6 {
		buf.WriteString("...")
		return
	}
	switch v := v.(type) {
	case nil, bool, int64, float64, complex128:
		fmt.Fprintf(buf, "%v", v)
	case string:
		fmt.Fprintf(buf, "%q", v)
	case *Term:
		buf.WriteString(v.key)
	case *mapV:
		if v == nil {
			buf.WriteString("map<nil>")
			return
		}
		buf.WriteString("map[")
		for i := range v.keys {
			if i > 0 {
				buf.WriteString(" ")
			}
			writeValue(buf, v.keys[i], depth+1)
			buf.WriteString(":")
			writeValue(buf, v.vals[i], depth+1)
		}
		buf.WriteString("]")
	case *value:
		if v == nil {
			buf.WriteString("<nil>")
		} else {
			buf.WriteString("&")
			writeValue(buf, *v, depth+1)
		}
	case iface:
		if v.t == nil {
			buf.WriteString("iface(nil)")
			return
		}
		fmt.Fprintf(buf, "(%s, ", v.t)
		writeValue(buf, v.v, depth+1)
		buf.WriteString(")")
	case structure:
		buf.WriteString("{")
		for i, e := range v {
			if i > 0 {
				buf.WriteString(" ")
			}
			writeValue(buf, e, depth+1)
		}
		buf.WriteString("}")
	case array:
		buf.WriteString("[")
		for i, e := range v {
			if i > 0 {
				buf.WriteString(" ")
			}
			writeValue(buf, e, depth+1)
		}
		buf.WriteString("]")
	case []value:
		buf.WriteString("[")
		for i, e := range v {
			if i > 0 {
				buf.WriteString(" ")
			}
			writeValue(buf, e, depth+1)
		}
		buf.WriteString("]")
	case tuple:
		buf.WriteString("(")
		for i, e := range v {
			if i > 0 {
				buf.WriteString(", ")
			}
			writeValue(buf, e, depth+1)
		}
		buf.WriteString(")")
	case *ssa.Function:
		if v == nil {
			buf.WriteString("func<nil>")
		} else {
			buf.WriteString(v.String())
		}
	case *closure:
		buf.WriteString("closure:" + v.Fn.String())
	case *opaque:
		buf.WriteString("opaque:" + v.kind)
	default:
		fmt.Fprintf(buf, "<%T>", v)
	}
}

func toString(v value) string {
	var b bytes.Buffer
	writeValue(&b, v, 0)
	return b.String()
}

// ---------- type helpers ----------

func deref(t types.Type) types.Type {
	if p, ok := t.Underlying().(*types.Pointer); ok {
		return p.Elem()
	}
	panic("deref of non-pointer " + t.String())
}

type intKind struct {
	bits   int
	signed bool
}

func intKindOf(t types.Type) (intKind, bool) {
	b, ok := t.Underlying().(*types.Basic)
	if !ok || b.Info()&types.IsInteger == 0 {
		return intKind{}, false
	}
	switch b.Kind() {
	case types.Int, types.Int64, types.UntypedInt, types.UntypedRune:
		return intKind{64, true}, true
	case types.Int32:
		return intKind{32, true}, true
	case types.Int16:
		return intKind{16, true}, true
	case types.Int8:
		return intKind{8, true}, true
	case types.Uint, types.Uint64, types.Uintptr:
		return intKind{64, false}, true
	case types.Uint32:
		return intKind{32, false}, true
	case types.Uint16:
		return intKind{16, false}, true
	case types.Uint8:
		return intKind{8, false}, true
	}
	return intKind{}, false
}

func wrapConcrete(k intKind, x int64) int64 {
	switch {
	case k.bits == 64:
		return x
	case k.signed && k.bits == 32:
		return int64(int32(x))
	case k.signed && k.bits == 16:
		return int64(int16(x))
	case k.signed && k.bits == 8:
		return int64(int8(x))
	case !k.signed && k.bits == 32:
		return int64(uint32(x))
	case !k.signed && k.bits == 16:
		return int64(uint16(x))
	case !k.signed && k.bits == 8:
		return int64(uint8(x))
	}
	return x
}

func isStringType(t types.Type) bool {
	b, ok := t.Underlying().(*types.Basic)
	return ok && b.Info()&types.IsString != 0
}

func isFloatType(t types.Type) bool {
	b, ok := t.Underlying().(*types.Basic)
	return ok && b.Info()&types.IsFloat != 0
}

func isBoolType(t types.Type) bool {
	b, ok := t.Underlying().(*types.Basic)
	return ok && b.Info()&types.IsBoolean != 0
}

func typeString(t types.Type) string {
	if t == nil {
		return "<nil>"
	}
	return strings.TrimPrefix(t.String(), "*")
}

package main

// Translation of Go regular expressions (regexp/syntax) over byte-range
// classes into SMT-LIB regular expressions, so that one pattern serves both
// the native self-tests (regexp package) and the solver.

import (
	"fmt"
	"regexp"
	"regexp/syntax"
	"strconv"
)

func smtRegex(pattern string) *Term {
	re, err := syntax.Parse(pattern, syntax.Perl)
	if err != nil {
		panic("smtRegex: " + err.Error())
	}
	return re2smt(re.Simplify())
}

func re2smt(re *syntax.Regexp) *Term {
	switch re.Op {
	case syntax.OpEmptyMatch:
		return reLit("")
	case syntax.OpLiteral:
		for _, r := range re.Rune {
			if r > 0x7f {
				panic("smtRegex: non-ASCII literal")
			}
		}
		if re.Flags&syntax.FoldCase != 0 {
			return ciRegex(string(re.Rune))
		}
		return reLit(string(re.Rune))
	case syntax.OpCharClass:
		return reByteSet(func(b int) bool {
			for i := 0; i+1 < len(re.Rune); i += 2 {
				if re.Rune[i] <= rune(b) && rune(b) <= re.Rune[i+1] {
					return true
				}
			}
			return false
		})
	case syntax.OpAnyChar, syntax.OpAnyCharNotNL:
		return reByteSet(func(b int) bool { return re.Op == syntax.OpAnyChar || b != '\n' })
	case syntax.OpCapture:
		return re2smt(re.Sub[0])
	case syntax.OpStar:
		return reStar(re2smt(re.Sub[0]))
	case syntax.OpPlus:
		return rePlus(re2smt(re.Sub[0]))
	case syntax.OpQuest:
		return reOpt(re2smt(re.Sub[0]))
	case syntax.OpRepeat:
		sub := re2smt(re.Sub[0])
		if re.Max < 0 {
			l := rawApp("re.loop", SRe, sub)
			l.key = "((_ re.^ " + strconv.Itoa(re.Min) + ") " + sub.key + ")"
			return reConcat(l, reStar(sub))
		}
		l := rawApp("re.loop", SRe, sub)
		l.key = fmt.Sprintf("((_ re.loop %d %d) %s)", re.Min, re.Max, sub.key)
		return l
	case syntax.OpConcat:
		var parts []*Term
		for _, s := range re.Sub {
			if s.Op == syntax.OpBeginText || s.Op == syntax.OpEndText {
				continue
			}
			parts = append(parts, re2smt(s))
		}
		if len(parts) == 0 {
			return reLit("")
		}
		return reConcat(parts...)
	case syntax.OpAlternate:
		var parts []*Term
		for _, s := range re.Sub {
			parts = append(parts, re2smt(s))
		}
		return reUnion(parts...)
	case syntax.OpBeginText, syntax.OpEndText:
		return reLit("")
	}
	panic("smtRegex: unsupported regexp construct " + re.Op.String())
}

// dual regex: a Go pattern (anchored) together with its SMT translation
type dualRe struct {
	pat string
	re  *regexp.Regexp
	smt *Term
}

func newDual(pat string) *dualRe {
	return &dualRe{pat: pat, re: regexp.MustCompile("^(?:" + pat + ")$"), smt: smtRegex(pat)}
}

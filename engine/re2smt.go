package main

// Translation of Go regular expressions (regexp/syntax) over byte-range
// classes into SMT-LIB regular expressions, so that one pattern serves both
// the native self-tests (regexp package) and the solver.

import (
	"fmt"
	"regexp"
	"regexp/syntax"
	"strconv"
)

func smtRegex(pattern string) *Term {
	re, err := syntax.Parse(pattern, syntax.Perl)
	if err != nil {
		panic("smtRegex: " + err.Error())
	}
	return re2smt(re.Simplify())
}

func re2smt(re *syntax.Regexp) *Term {
	switch re.Op {
	case syntax.OpEmptyMatch:
		return reLit("")
	case syntax.OpLiteral:
		for _, r := range re.Rune {
			if r > 0x7f {
				panic("smtRegex: non-ASCII literal")
			}
		}
		if re.Flags&syntax.FoldCase != 0 {
			return ciRegex(string(re.Rune))
		}
		return reLit(string(re.Rune))
	case syntax.OpCharClass:
		return reByteSet(func(b int) bool {
			for i := 0; i+1 < len(re.Rune); i += 2 {
				if re.Rune[i] <= rune(b) && rune(b) <= re.Rune[i+1] {
					return true
				}
			}
			return false
		})
	case syntax.OpAnyChar, syntax.OpAnyCharNotNL:
		return reByteSet(func(b int) bool { return re.Op == syntax.OpAnyChar || b != '\n' })
	case syntax.OpCapture:
		return re2smt(re.Sub[0])
	case syntax.OpStar:
		return reStar(re2smt(re.Sub[0]))
	case syntax.OpPlus:
		return rePlus(re2smt(re.Sub[0]))
	case syntax.OpQuest:
		return reOpt(re2smt(re.Sub[0]))
	case syntax.OpRepeat:
		sub := re2smt(re.Sub[0])
		if re.Max < 0 {
			l := rawApp("re.loop", SRe, sub)
			l.key = "((_ re.^ " + strconv.Itoa(re.Min) + ") " + sub.key + ")"
			return reConcat(l, reStar(sub))
		}
		l := rawApp("re.loop", SRe, sub)
		l.key = fmt.Sprintf("((_ re.loop %d %d) %s)", re.Min, re.Max, sub.key)
		return l
	case syntax.OpConcat:
		var parts []*Term
		for _, s := range re.Sub {
			if s.Op == syntax.OpBeginText || s.Op == syntax.OpEndText {
				continue
			}
			parts = append(parts, re2smt(s))
		}
		if len(parts) == 0 {
			return reLit("")
		}
		return reConcat(parts...)
	case syntax.OpAlternate:
		var parts []*Term
		for _, s := range re.Sub {
			parts = append(parts, re2smt(s))
		}
		return reUnion(parts...)
	case syntax.OpBeginText, syntax.OpEndText:
		return reLit("")
	}
	panic("smtRegex: unsupported regexp construct " + re.Op.String())
}

// dual regex: a Go pattern (anchored) together with its SMT translation
type dualRe struct {
	pat string
	re  *regexp.Regexp
	smt *Term
}

var allDuals []*dualRe

func newDual(pat string) *dualRe {
	d := &dualRe{pat: pat, re: regexp.MustCompile("^(?:" + pat + ")$"), smt: smtRegex(pat)}
	allDuals = append(allDuals, d)
	return d
}

// reEnds returns the set of end positions of matches of the SMT regular
// expression re starting at position i of s (an independent evaluator of the
// SMT-LIB regex operators used by the translation).
func reEnds(re *Term, s string, i int) map[int]bool {
	out := map[int]bool{}
	switch re.Op {
	case "re.none":
	case "str.to_re":
		lit := re.Args[0].S
		if len(s)-i >= len(lit) && s[i:i+len(lit)] == lit {
			out[i+len(lit)] = true
		}
	case "re.range":
		if i < len(s) && s[i] >= re.Args[0].S[0] && s[i] <= re.Args[1].S[0] {
			out[i+1] = true
		}
	case "re.union":
		for _, a := range re.Args {
			for e := range reEnds(a, s, i) {
				out[e] = true
			}
		}
	case "re.++":
		cur := map[int]bool{i: true}
		for _, a := range re.Args {
			next := map[int]bool{}
			for p := range cur {
				for e := range reEnds(a, s, p) {
					next[e] = true
				}
			}
			cur = next
		}
		return cur
	case "re.opt":
		out[i] = true
		for e := range reEnds(re.Args[0], s, i) {
			out[e] = true
		}
	case "re.*", "re.+":
		cur := map[int]bool{i: true}
		if re.Op == "re.*" {
			out[i] = true
		}
		for len(cur) > 0 {
			next := map[int]bool{}
			for p := range cur {
				for e := range reEnds(re.Args[0], s, p) {
					if !out[e] {
						out[e] = true
						next[e] = true
					}
				}
			}
			cur = next
		}
	case "re.loop":
		var lo, hi int
		if n, _ := fmt.Sscanf(re.key, "((_ re.loop %d %d)", &lo, &hi); n != 2 {
			if n, _ := fmt.Sscanf(re.key, "((_ re.^ %d)", &lo); n == 1 {
				hi = lo
			} else {
				panic("reEnds: cannot parse " + re.key)
			}
		}
		cur := map[int]bool{i: true}
		if lo == 0 {
			out[i] = true
		}
		for k := 1; k <= hi && len(cur) > 0; k++ {
			next := map[int]bool{}
			for p := range cur {
				for e := range reEnds(re.Args[0], s, p) {
					next[e] = true
				}
			}
			cur = next
			if k >= lo {
				for e := range cur {
					out[e] = true
				}
			}
		}
	default:
		panic("reEnds: unsupported " + re.Op)
	}
	return out
}

func reMatches(re *Term, s string) bool { return reEnds(re, s, 0)[len(s)] }

// dualSelfTest compares every Go pattern with its SMT translation on all
// strings up to length n over an alphabet taken from the pattern.
func dualSelfTest(n int) (int, string) {
	count := 0
	for _, d := range allDuals {
		seen := map[byte]bool{}
		var alpha []byte
		for i := 0; i < len(d.pat) && len(alpha) < 7; i++ {
			c := d.pat[i]
			if (c >= '0' && c <= '9' || c >= 'a' && c <= 'z' || c >= 'A' && c <= 'Z' || c == '+' || c == '-' || c == '.' || c == '_' || c == '=') && !seen[c] {
				seen[c] = true
				alpha = append(alpha, c)
			}
		}
		alpha = append(alpha, ' ', 0xc3)
		var rec func(cur []byte) string
		rec = func(cur []byte) string {
			count++
			s := string(cur)
			if d.re.MatchString(s) != reMatches(d.smt, s) {
				return fmt.Sprintf("pattern %q on %q: regexp=%v translation=%v", d.pat, s, d.re.MatchString(s), reMatches(d.smt, s))
			}
			if len(cur) >= n {
				return ""
			}
			for _, c := range alpha {
				if r := rec(append(cur, c)); r != "" {
					return r
				}
			}
			return ""
		}
		if r := rec(nil); r != "" {
			return count, r
		}
	}
	return count, ""
}

package main

// Goroutines, channels, select, mutexes, contexts for the dag package.
//
// Interpreted goroutines are host goroutines passing a baton: exactly one runs
// and the run is a deterministic function of the decision trace. Policy
// (DESIGN.md 2.8, "maximal intervals"): a spawned goroutine runs at once until
// it parks at the harness' vYield (first attempt of its task function: the task
// counts as entered), is about to send on a channel nobody receives from, or
// blocks on a full channel / held mutex. The goroutine executing the
// scheduler loop is the only one that chooses: at a select with default and
// no ready case it either takes default or delivers one parked goroutine
// (lets it finish its task and send); at time.Sleep a delivery is forced when
// something is deliverable.

import (
	"fmt"
	"go/types"
	"os"

	"golang.org/x/tools/go/ssa"
)

type goroutineKilled struct{}

type goroutine struct {
	id         int
	m          *machine
	resume     chan bool // true = killed
	done       bool
	started    bool
	park       string // "", "yield", "send", "recv", "mutex", "runnable"
	waitCh     *chanV
	sendVal    value
	recvVal    value
	recvOK     bool
	waitMu     *value
	tag        int64 // harness tag given to vYield
	yielded    bool
	returnTo   *goroutine
	selectSeen int // activity counter when the goroutine parked in a blocking select
	fn         value
	args       []value
}

type scheduler struct {
	gs       []*goroutine
	main     *goroutine
	runq     []*goroutine
	pending  interface{} // engine panic raised in a non-main goroutine
	mutexes  map[*value]*mutexState
	idle     int
	chanSeq  int
	delivery []int64 // tags of delivered goroutines, in order (for native replay)
	activity int     // counts channel / mutex / spawn events (progress detection)
}

type mutexState struct {
	owner   *goroutine
	waiters []*goroutine
}

type chanV struct {
	id       int
	capacity int64
	buf      []value
	closed   bool
	sendq    []*goroutine
	recvq    []*goroutine
}

type ctxState struct {
	parent *ctxState
	done   *chanV
	err    string
	key    value
	keyT   types.Type
	val    value
}

func (m *machine) startMain(entry *ssa.Function) {
	m.sched = &scheduler{mutexes: map[*value]*mutexState{}}
	g0 := &goroutine{id: 0, m: m, resume: make(chan bool), started: true}
	m.sched.main = g0
	m.sched.gs = append(m.sched.gs, g0)
	m.cur = g0
	defer m.killAll()
	m.callSSA(nil, 0, entry, nil, nil)
}

// killAll terminates the host goroutines of interpreted goroutines that are
// still parked when the run ends.
func (m *machine) killAll() {
	if m.sched == nil {
		return
	}
	for _, g := range m.sched.gs {
		if g != m.sched.main && g.started && !g.done {
			g.resume <- true
			<-m.sched.main.resume
		}
	}
}

// switchTo hands the baton to g and waits until it comes back.
func (m *machine) switchTo(g *goroutine) {
	cur := m.cur
	g.returnTo = cur
	m.cur = g
	g.park = ""
	if !g.started {
		g.started = true
		go m.goroutineBody(g)
	} else {
		g.resume <- false
	}
	if killed := <-cur.resume; killed {
		panic(goroutineKilled{})
	}
	m.cur = cur
	if p := m.sched.pending; p != nil {
		m.sched.pending = nil
		panic(p)
	}
}

func (m *machine) goroutineBody(g *goroutine) {
	defer func() {
		r := recover()
		g.done = true
		if r != nil {
			if _, ok := r.(goroutineKilled); ok {
				m.sched.main.resume <- false
				return
			}
			// a panic in a goroutine ends the run like a panic anywhere else
			if m.sched.pending == nil {
				m.sched.pending = r
			}
		}
		g.returnTo.resume <- false
	}()
	m.call(nil, 0, g.fn, g.args)
}

// parkCur parks the running goroutine and returns the baton to whoever resumed it.
func (m *machine) parkCur(why string) {
	g := m.cur
	if g == m.sched.main {
		panic(unwindOverflow{"the scheduling goroutine blocks forever (" + why + ")"})
	}
	g.park = why
	g.returnTo.resume <- false
	if killed := <-g.resume; killed {
		panic(goroutineKilled{})
	}
	m.cur = g
}

// drain runs goroutines that became runnable (eagerly, in id order).
func (m *machine) drain() {
	// goroutines waiting in a blocking select look again after any channel event
	for _, g := range m.sched.gs {
		if !g.done && g.park == "select" && g.selectSeen != m.sched.activity {
			m.makeRunnable(g)
		}
	}
	for len(m.sched.runq) > 0 {
		g := m.sched.runq[0]
		m.sched.runq = m.sched.runq[1:]
		if g.done {
			continue
		}
		m.switchTo(g)
	}
}

func (m *machine) makeRunnable(g *goroutine) {
	g.park = "runnable"
	m.sched.runq = append(m.sched.runq, g)
}

func (m *machine) spawn(fr *frame, instr *ssa.Go, fn value, args []value) {
	if m.sched == nil {
		panic(cut{"goroutine outside a scheduled run"})
	}
	if len(m.sched.gs) > 64 {
		panic(unwindOverflow{"more than 64 goroutines"})
	}
	g := &goroutine{id: len(m.sched.gs), m: m, resume: make(chan bool), fn: fn, args: args, tag: -1}
	m.sched.gs = append(m.sched.gs, g)
	m.sched.activity++
	m.switchTo(g) // runs until it parks
	m.drain()
}

// ---------- channels ----------

func (m *machine) makeChan(size value) *chanV {
	n := asInt64(size)
	if n < 0 {
		panic(m.runtimeError("makechan: size out of range"))
	}
	if m.sched != nil {
		m.sched.chanSeq++
		return &chanV{id: m.sched.chanSeq, capacity: n}
	}
	return &chanV{capacity: n}
}

func (m *machine) dbg(format string, a ...interface{}) {
	if os.Getenv("SYMGO_EVENTS") != "" {
		fmt.Fprintf(os.Stderr, "  sched g%d: "+format+"\n", append([]interface{}{m.cur.id}, a...)...)
	}
}

func (m *machine) chanSend(fr *frame, c *chanV, v value) {
	m.sched.activity++
	m.dbg("send on chan %d (cap %d, buf %d, recvq %d)", c.id, c.capacity, len(c.buf), len(c.recvq))
	if c == nil {
		m.parkCur("send on nil channel")
	}
	if c.closed {
		panic(m.runtimeError("send on closed channel"))
	}
	if len(c.recvq) > 0 {
		r := c.recvq[0]
		c.recvq = c.recvq[1:]
		r.recvVal, r.recvOK = v, true
		m.makeRunnable(r)
		return
	}
	if int64(len(c.buf)) < c.capacity {
		c.buf = append(c.buf, v)
		return
	}
	g := m.cur
	g.waitCh, g.sendVal = c, v
	c.sendq = append(c.sendq, g)
	m.parkCur("send")
	// resumed: the value has been taken
}

// takeFromSender completes the send of a parked sender.
func (m *machine) takeFromSender(c *chanV, g *goroutine) value {
	for i, s := range c.sendq {
		if s == g {
			c.sendq = append(c.sendq[:i:i], c.sendq[i+1:]...)
			break
		}
	}
	v := g.sendVal
	g.sendVal, g.waitCh = nil, nil
	m.makeRunnable(g)
	return v
}

// settle lets scheduler loops running in other goroutines (parked in
// time.Sleep) iterate until none of them makes progress any more.
func (m *machine) settle() {
	for round := 0; round < 1000; round++ {
		before := m.sched.activity
		any := false
		for _, g := range m.sched.gs {
			if !g.done && g.park == "sleep" {
				any = true
				m.switchTo(g)
				m.drain()
			}
		}
		if !any || m.sched.activity == before {
			return
		}
	}
	panic(unwindOverflow{"scheduler loops in goroutines never settle"})
}

func (m *machine) chanRecvNow(c *chanV, elem types.Type) (value, bool, bool) {
	m.dbg("recv on chan %d (buf %d, sendq %d)", c.id, len(c.buf), len(c.sendq))
	if len(c.buf) > 0 {
		v := c.buf[0]
		c.buf = c.buf[1:]
		if len(c.sendq) > 0 {
			s := c.sendq[0]
			c.buf = append(c.buf, m.takeFromSender(c, s))
		}
		return v, true, true
	}
	if len(c.sendq) > 0 {
		s := c.sendq[0]
		if len(c.sendq) > 1 {
			s = c.sendq[m.choose(len(c.sendq), "receive-from")]
		}
		return m.takeFromSender(c, s), true, true
	}
	if c.closed {
		return zero(elem), false, true
	}
	return nil, false, false
}

func (m *machine) chanRecv(fr *frame, c *chanV, commaOk bool, elem types.Type) value {
	if c == nil {
		m.parkCur("receive from nil channel")
	}
	v, ok, ready := m.chanRecvNow(c, elem)
	if !ready {
		g := m.cur
		if g == m.sched.main {
			// blocking receive in the main goroutine: let other scheduler loops
			// settle, then deliver running tasks one by one until something arrives
			for {
				m.settle()
				v, ok, ready = m.chanRecvNow(c, elem)
				if ready {
					break
				}
				if !m.deliverOne("blocking receive") {
					panic(unwindOverflow{"blocking receive with nothing in flight"})
				}
			}
		} else {
			g.waitCh = c
			c.recvq = append(c.recvq, g)
			m.parkCur("recv")
			v, ok = g.recvVal, g.recvOK
			g.recvVal = nil
		}
	}
	m.drain()
	if commaOk {
		return tuple{v, ok}
	}
	return v
}

func (m *machine) chanClose(c *chanV) {
	if c == nil || c.closed {
		panic(m.runtimeError("close of nil or closed channel"))
	}
	c.closed = true
	m.sched.activity++
	for _, r := range c.recvq {
		r.recvVal, r.recvOK = nil, false
		m.makeRunnable(r)
	}
	c.recvq = nil
}

// deliverable goroutines: parked at vYield (their task counts as running).
func (m *machine) yieldParked() []*goroutine {
	var out []*goroutine
	for _, g := range m.sched.gs {
		if !g.done && g.park == "yield" {
			out = append(out, g)
		}
	}
	return out
}

// deliverOne lets one yield-parked goroutine continue until it parks again.
func (m *machine) deliverOne(why string) bool {
	ys := m.yieldParked()
	if len(ys) == 0 {
		return false
	}
	g := ys[m.choose(len(ys), "deliver")]
	m.sched.delivery = append(m.sched.delivery, g.tag)
	m.sched.idle = 0
	m.switchTo(g)
	m.drain() // whatever the delivered goroutine unblocked (mutex hand-over) runs now
	return true
}

func (m *machine) doSelect(fr *frame, instr *ssa.Select) value {
	type cs struct {
		ch   *chanV
		recv bool
		send value
		elem types.Type
	}
	var cases []cs
	for _, st := range instr.States {
		c := cs{ch: fr.get(st.Chan).(*chanV), recv: st.Dir == types.RecvOnly}
		if !c.recv {
			c.send = fr.get(st.Send)
		} else {
			c.elem = st.Chan.Type().Underlying().(*types.Chan).Elem()
		}
		cases = append(cases, c)
	}
	result := func(chosen int, v value, ok bool) value {
		r := tuple{int64(chosen), ok}
		for i, c := range cases {
			if c.recv {
				if i == chosen {
					r = append(r, v)
				} else {
					r = append(r, zero(c.elem))
				}
			}
		}
		return r
	}
	ready := func() []int {
		var rs []int
		for i, c := range cases {
			if c.ch == nil {
				continue
			}
			if c.recv {
				if len(c.ch.buf) > 0 || len(c.ch.sendq) > 0 || c.ch.closed {
					rs = append(rs, i)
				}
			} else if len(c.ch.recvq) > 0 || int64(len(c.ch.buf)) < c.ch.capacity {
				rs = append(rs, i)
			}
		}
		return rs
	}
	for {
		rs := ready()
		m.dbg("select blocking=%v cases=%d ready=%v yieldParked=%d", instr.Blocking, len(cases), rs, len(m.yieldParked()))
		if len(rs) > 0 {
			i := rs[0]
			if len(rs) > 1 {
				i = rs[m.choose(len(rs), "select-case")]
			}
			c := cases[i]
			if c.recv {
				v, ok, _ := m.chanRecvNow(c.ch, c.elem)
				m.drain()
				return result(i, v, ok)
			}
			m.chanSend(fr, c.ch, c.send)
			return result(i, nil, false)
		}
		if m.cur != m.sched.main {
			if !instr.Blocking {
				return result(-1, nil, false)
			}
			// blocking select in a worker: wait until some channel event happened, then look again
			m.cur.selectSeen = m.sched.activity
			m.parkCur("select")
			continue
		}
		// nothing ready: take default, or deliver one running task
		ys := m.yieldParked()
		if !instr.Blocking {
			if len(ys) == 0 || m.choose(2, "default-or-deliver") == 0 {
				return result(-1, nil, false)
			}
		}
		if !m.deliverOne("select") {
			panic(unwindOverflow{"blocking select with nothing in flight"})
		}
	}
}

// ---------- time, mutex ----------

func iSleep(m *machine, fr *frame, args []value) value {
	if m.sched == nil {
		return nil
	}
	if m.cur != m.sched.main {
		// a scheduler loop running in a goroutine: wait to be resumed
		m.parkCur("sleep")
		return nil
	}
	// the scheduler loop found nothing to launch: harness hook (work conservation)
	if m.onIdle != nil && !isNilValue(m.onIdle) {
		// only at quiescent points: every finished task has been received
		pendingCompletion := false
		for _, g := range m.sched.gs {
			if !g.done && g.yielded && g.park == "send" {
				pendingCompletion = true
			}
		}
		if !pendingCompletion {
			m.call(fr, 0, m.onIdle, nil)
		}
	}
	// fairness: started tasks eventually return
	if m.deliverOne("sleep") {
		return nil
	}
	// nothing is running a task; goroutines parked at a send will be received
	// at the next select. If nothing at all is in flight the loop only spins.
	inFlight := false
	for _, g := range m.sched.gs {
		if g != m.sched.main && !g.done {
			inFlight = true
		}
	}
	if !inFlight {
		m.sched.idle++
		if m.sched.idle > 3 {
			panic(unwindOverflow{"the scheduler loop spins with no task in flight"})
		}
		return nil
	}
	// goroutines exist but none can run: every one is blocked on a mutex or a
	// channel nobody will serve, and none is about to hand a completion over
	stuck := true
	for _, g := range m.sched.gs {
		if g == m.sched.main || g.done {
			continue
		}
		switch g.park {
		case "mutex", "recv", "select":
		case "send":
			if g.yielded || g.waitCh == nil || g.waitCh.capacity == 0 {
				stuck = false // a sender the scheduler loop will receive from
			}
		default:
			stuck = false
		}
	}
	if stuck {
		m.drain()
		m.sched.idle++
		if m.sched.idle > 6 {
			panic(unwindOverflow{"every goroutine is blocked for ever (deadlock) while the scheduler loop spins"})
		}
	}
	return nil
}

func mutexOf(args []value) *value { return args[0].(*value) }

func iMutexLock(m *machine, fr *frame, args []value) value {
	if m.sched == nil {
		return nil
	}
	m.sched.activity++
	mu := mutexOf(args)
	st := m.sched.mutexes[mu]
	if st == nil {
		st = &mutexState{}
		m.sched.mutexes[mu] = st
	}
	m.events = append(m.events, fmt.Sprintf("lock %p g%d", mu, m.cur.id))
	if st.owner == nil {
		st.owner = m.cur
		return nil
	}
	st.waiters = append(st.waiters, m.cur)
	m.cur.waitMu = mu
	m.parkCur("mutex")
	return nil
}

func iMutexUnlock(m *machine, fr *frame, args []value) value {
	if m.sched == nil {
		return nil
	}
	mu := mutexOf(args)
	st := m.sched.mutexes[mu]
	if st == nil || st.owner == nil {
		panic(targetPanic{iface{t: types.Typ[types.String], v: "sync: unlock of unlocked mutex"}})
	}
	st.owner = nil
	m.sched.activity++
	if len(st.waiters) > 0 {
		w := st.waiters[0]
		st.waiters = st.waiters[1:]
		st.owner = w
		w.waitMu = nil
		m.makeRunnable(w)
	}
	return nil
}

// ---------- harness API ----------

// vYield(tag): the task function has been entered. On the first call of a
// goroutine it parks there until the explorer delivers it.
func hYield(m *machine, fr *frame, args []value) value {
	if m.sched == nil || m.cur == m.sched.main {
		return nil
	}
	g := m.cur
	if g.yielded {
		return nil
	}
	g.yielded = true
	g.tag = asInt64(args[0])
	m.parkCur("yield")
	return nil
}

// vYieldAgain(tag): a further scheduling point inside a running task (e.g. in
// the middle of a Write): the goroutine parks again and is delivered like a
// running task.
func hYieldAgain(m *machine, fr *frame, args []value) value {
	if m.sched == nil || m.cur == m.sched.main {
		return nil
	}
	g := m.cur
	g.yielded = true
	g.tag = asInt64(args[0])
	m.parkCur("yield")
	return nil
}

func hEvent(m *machine, fr *frame, args []value) value {
	if os.Getenv("SYMGO_EVENTS") != "" {
		fmt.Fprintf(os.Stderr, "EVENT %s\n", toString(args[0]))
	}
	return nil
}

// ---------- contexts ----------

func (m *machine) ctxValue(st *ctxState) iface {
	return iface{t: types.Typ[types.Int], v: &opaque{kind: "ctx", data: st}}
}

func hNewContext(m *machine, fr *frame, args []value) value {
	st := &ctxState{done: m.makeChan(int64(0))}
	return m.ctxValue(st)
}

func hCancel(m *machine, fr *frame, args []value) value {
	st := args[0].(iface).v.(*opaque).data.(*ctxState)
	root := st
	for root.parent != nil {
		root = root.parent
	}
	if !root.done.closed {
		root.err = "context canceled"
		m.chanClose(root.done)
	}
	return nil
}

func iContextWithValue(m *machine, fr *frame, args []value) value {
	p := args[0].(iface)
	op, ok := p.v.(*opaque)
	if !ok || op.kind != "ctx" {
		panic(cut{"context.WithValue on a context the engine did not create"})
	}
	ps := op.data.(*ctxState)
	k := args[1].(iface)
	return m.ctxValue(&ctxState{parent: ps, done: ps.done, key: k.v, keyT: k.t, val: args[2]})
}

func (m *machine) callOpaqueMethodExt(fr *frame, om *opaqueMethod, args []value) value {
	if om.obj.kind == "ctx" {
		st := om.obj.data.(*ctxState)
		switch om.name {
		case "Done":
			return st.done
		case "Err":
			root := st
			for root.parent != nil {
				root = root.parent
			}
			if root.err == "" {
				return iface{}
			}
			return m.errorsNew(root.err)
		case "Value":
			k := args[1].(iface)
			for s := st; s != nil; s = s.parent {
				if s.keyT != nil && sameType(s.keyT, k.t) {
					if r, ok := equals(s.keyT, s.key, k.v).(bool); ok && r {
						return s.val
					}
				}
			}
			return iface{}
		}
	}
	panic(cut{"method " + om.name + " on engine object " + om.obj.kind + " is not modelled"})
}

// ---------- bytes.Buffer (content kept per buffer object) ----------

func (m *machine) bufferOf(p *value) *value {
	if m.buffers == nil {
		m.buffers = map[*value]*value{}
	}
	b, ok := m.buffers[p]
	if !ok {
		v := value("")
		b = &v
		m.buffers[p] = b
	}
	return b
}

// bufferWrite appends text to a *bytes.Buffer held in target memory.
func bufferWrite(m *machine, t types.Type, p *value, text *Term) bool {
	if t.String() != "*bytes.Buffer" && t.String() != "*strings.Builder" {
		return false
	}
	b := m.bufferOf(p)
	*b = fromTerm(mkConcat(toTerm(*b), text))
	return true
}

func iBufferWriteTo(m *machine, fr *frame, args []value) value {
	p := args[0].(*value)
	b := m.bufferOf(p)
	text := toTerm(*b)
	*b = ""
	if s, ok := fromTerm(text).(string); ok && s == "" {
		return tuple{int64(0), iface{}}
	}
	r := m.writeTo(fr, args[1], text)
	if t, ok := r.(tuple); ok && len(t) == 2 {
		return tuple{t[0], t[1]} // (n, err) of the writer's Write
	}
	return tuple{fromTerm(mkLen(text)), iface{}}
}

func iBufferString(m *machine, fr *frame, args []value) value {
	return *m.bufferOf(args[0].(*value))
}

func iBufferLen(m *machine, fr *frame, args []value) value {
	return fromTerm(mkLen(toTerm(*m.bufferOf(args[0].(*value)))))
}

func iBufferWriteString(m *machine, fr *frame, args []value) value {
	b := m.bufferOf(args[0].(*value))
	t := toTerm(args[1])
	*b = fromTerm(mkConcat(toTerm(*b), t))
	return tuple{fromTerm(mkLen(t)), iface{}}
}

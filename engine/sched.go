package main

// Goroutines, channels, select, mutexes. (phase 1: single goroutine only)

import (
	"go/types"

	"golang.org/x/tools/go/ssa"
)

type goroutine struct {
	id int
}

type scheduler struct{}

type chanV struct {
	id       int
	capacity int64
	buf      []value
	closed   bool
}

func (m *machine) startMain(entry *ssa.Function) {
	m.callSSA(nil, 0, entry, nil, nil)
}

func (m *machine) spawn(fr *frame, instr *ssa.Go, fn value, args []value) {
	panic(cut{"goroutines not supported yet"})
}

func (m *machine) makeChan(size value) *chanV {
	panic(cut{"channels not supported yet"})
}

func (m *machine) chanSend(fr *frame, c *chanV, v value) {
	panic(cut{"channels not supported yet"})
}

func (m *machine) chanRecv(fr *frame, c *chanV, commaOk bool, elem types.Type) value {
	panic(cut{"channels not supported yet"})
}

func (m *machine) chanClose(c *chanV) {
	panic(cut{"channels not supported yet"})
}

func (m *machine) doSelect(fr *frame, instr *ssa.Select) value {
	panic(cut{"select not supported yet"})
}

func hYield(m *machine, fr *frame, args []value) value { return nil }

func hEvent(m *machine, fr *frame, args []value) value { return nil }

func (m *machine) callOpaqueMethodExt(fr *frame, om *opaqueMethod, args []value) value {
	panic(cut{"method " + om.name + " on engine object " + om.obj.kind + " is not modelled"})
}

// bufferWrite appends text to a *bytes.Buffer held in target memory (not yet modelled).
func bufferWrite(m *machine, t types.Type, p *value, text *Term) bool { return false }

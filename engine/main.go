package main

import (
	"encoding/json"
	"fmt"
	"os"
	"path/filepath"
	"sort"
	"strconv"
	"strings"
	"time"
)

const (
	exitOK           = 0
	exitViolation    = 1
	exitInconclusive = 2
)

func usage() {
	fmt.Fprintln(os.Stderr, `usage:
  symgo check <PROP> quick|thorough [--repo DIR] [--only HarnessName]
  symgo replay <file> [--repo DIR]
  symgo list [--repo DIR]`)
	os.Exit(64)
}

type opts struct {
	repo, verif string
	only        string
	keep        bool
}

func parseFlags(args []string) ([]string, opts) {
	o := opts{repo: "/repo", verif: "/verif"}
	if v := os.Getenv("VERIF_DIR"); v != "" {
		o.verif = v
	}
	var pos []string
	for i := 0; i < len(args); i++ {
		switch args[i] {
		case "--repo":
			i++
			o.repo = args[i]
		case "--verif":
			i++
			o.verif = args[i]
		case "--only":
			i++
			o.only = args[i]
		case "--keep":
			o.keep = true
		default:
			pos = append(pos, args[i])
		}
	}
	return pos, o
}

func main() {
	if len(os.Args) < 2 {
		usage()
	}
	pos, o := parseFlags(os.Args[2:])
	switch os.Args[1] {
	case "check":
		if len(pos) < 2 {
			usage()
		}
		os.Exit(runCheck(pos[0], pos[1], o))
	case "replay":
		if len(pos) < 1 {
			usage()
		}
		os.Exit(runReplay(pos[0], o))
	case "list":
		os.Exit(runList(o))
	default:
		usage()
	}
}

func tierConfig(tier string) (Config, exploreOpts) {
	cfg := Config{MaxSteps: 3_000_000, MaxDecisions: 600, SplitMax: 4, RunesMax: 3, MapPerms: true, SolverMs: 8000}
	eo := exploreOpts{Workers: 16, MaxPaths: 2000000, ConcordMax: 400, SampleMax: 6,
		Solvers: []string{"z3new-1", "cvc5-1", "z3-1"}, SolverMs: []int{4000, 4000, 8000}}
	if tier == "thorough" {
		eo.SolverMs = []int{10000, 10000, 30000}
		eo.MaxPaths = 20000000
		eo.ConcordMax = 5000
	}
	if v := os.Getenv("SYMGO_WORKERS"); v != "" {
		if n, err := strconv.Atoi(v); err == nil {
			eo.Workers = n
		}
	}
	if v := os.Getenv("SYMGO_SOLVERS"); v != "" {
		eo.Solvers = strings.Split(v, ",")
		for len(eo.SolverMs) < len(eo.Solvers) {
			eo.SolverMs = append(eo.SolverMs, 8000)
		}
		eo.SolverMs = eo.SolverMs[:len(eo.Solvers)]
	}
	return cfg, eo
}

type knownFinding struct {
	Status   string `json:"status"` // open | fixed
	Property string `json:"property"`
	Harness  string `json:"harness,omitempty"`
	Assert   string `json:"assert,omitempty"`
	What     string `json:"what"`
	Commit   string `json:"commit,omitempty"`
	// an open finding matches a violation of (harness, assert) whose model
	// satisfies every "var~substring(hex)" / "var=int" condition listed here
	When []string `json:"when,omitempty"`
}

func loadKnown(verif string) []knownFinding {
	data, err := os.ReadFile(filepath.Join(verif, "known_findings.json"))
	if err != nil {
		return nil
	}
	var f struct {
		Findings []knownFinding `json:"findings"`
	}
	if json.Unmarshal(data, &f) != nil {
		return nil
	}
	return f.Findings
}

func (k knownFinding) matches(prop string, v violation) bool {
	if k.Status != "open" || k.Property != prop {
		return false
	}
	if k.Harness != "" && k.Harness != v.Harness {
		return false
	}
	if k.Assert != "" && k.Assert != v.AssertID {
		return false
	}
	for _, c := range k.When {
		if i := strings.Index(c, "~"); i > 0 {
			mv, ok := v.Model[c[:i]]
			if !ok || !strings.Contains(mv.Hex, c[i+1:]) {
				return false
			}
		} else if i := strings.Index(c, "="); i > 0 {
			mv, ok := v.Model[c[:i]]
			n, _ := strconv.ParseInt(c[i+1:], 10, 64)
			if !ok || mv.I != n {
				return false
			}
		}
	}
	return true
}

type harnessReport struct {
	Name         string                    `json:"harness"`
	Paths        int                       `json:"paths"`
	Transitions  int                       `json:"decisions"`
	Ends         map[string]int            `json:"path_ends"`
	Cuts         map[string]int            `json:"cuts,omitempty"`
	Asserts      map[string]map[string]int `json:"assertions"`
	Reach        map[string]int            `json:"reach"`
	Queries      int64                     `json:"solver_queries"`
	UnknownBr    int                       `json:"unknown_branches"`
	Concordance  int                       `json:"native_concordance_runs"`
	MaxDecisions int                       `json:"longest_path_decisions"`
	WallS        float64                   `json:"wall_s"`
}

func runList(o opts) int {
	work, _ := os.MkdirTemp("", "symgo-list")
	defer os.RemoveAll(work)
	hf, err := prepareOverlay(o.repo, o.verif, work)
	if err != nil {
		fmt.Println(err)
		return 2
	}
	cfg, _ := tierConfig("quick")
	w, err := loadWorld(o.repo, hf, cfg)
	if err != nil {
		fmt.Println(err)
		return 2
	}
	for pkg, names := range w.allEntries() {
		for _, n := range names {
			fmt.Println(pkg, n)
		}
	}
	return 0
}

func runCheck(prop, tier string, o opts) int {
	t0 := time.Now()
	if tier != "quick" && tier != "thorough" {
		usage()
	}
	seed, _ := strconv.Atoi(os.Getenv("VERIF_SEED"))
	workDir := filepath.Join(o.verif, "work", prop+"-"+tier)
	if d := os.Getenv("VERIF_EVIDENCE_DIR"); d != "" {
		// a run against a scratch copy: keep its scratch files apart as well
		workDir = filepath.Join(o.verif, "work", "alt-"+filepath.Base(o.repo)+"-"+prop+"-"+tier)
	}
	os.RemoveAll(workDir)
	if err := os.MkdirAll(workDir, 0o755); err != nil {
		fmt.Println("cannot create work dir:", err)
		return exitInconclusive
	}
	ev := &evidence{Property: prop, Tier: tier, Seed: seed, t0: t0, verif: o.verif}
	inconclusive := func(reason string) int {
		fmt.Printf("INCONCLUSIVE property=%s reason=%s\n", prop, reason)
		ev.Inconclusive = append(ev.Inconclusive, reason)
		ev.write()
		return exitInconclusive
	}

	hf, err := prepareOverlay(o.repo, o.verif, workDir)
	if err != nil {
		return inconclusive("overlay: " + err.Error())
	}
	cfg, eo := tierConfig(tier)
	w, err := loadWorld(o.repo, hf, cfg)
	if err != nil {
		return inconclusive("load: " + err.Error())
	}
	w.thorough = tier == "thorough"
	entries := w.entriesFor(prop)
	if o.only != "" {
		var f []*ssaFn
		for _, e := range entries {
			if e.Name() == o.only {
				f = append(f, e)
			}
		}
		entries = f
	}
	if len(entries) == 0 {
		return inconclusive("no harness entry for " + prop)
	}

	// regex template self-test against the real regexp package
	for _, pat := range w.regexConstants() {
		t := w.template(pat)
		if t.kind == "" {
			ev.RegexNotes = append(ev.RegexNotes, fmt.Sprintf("pattern %q: %s (only an issue if a symbolic string reaches it)", pat, t.err))
			continue
		}
		n, bad := t.selfTest(6)
		if bad != "" {
			return inconclusive("regex template disagrees with the regexp package: " + bad)
		}
		ev.RegexNotes = append(ev.RegexNotes, fmt.Sprintf("pattern %q: template %s agrees with regexp on %d strings", pat, t.kind, n))
	}

	if n, bad := pfSelfTest(4); bad != "" {
		return inconclusive("ParseFloat model disagrees with strconv: " + bad)
	} else {
		ev.RegexNotes = append(ev.RegexNotes, fmt.Sprintf("ParseFloat syntax model agrees with strconv.ParseFloat on %d strings", n))
	}

	if n, bad := dualSelfTest(4); bad != "" {
		return inconclusive("regex translation self-test failed: " + bad)
	} else {
		ev.RegexNotes = append(ev.RegexNotes, fmt.Sprintf("Go-regexp to SMT-regex translation agrees with the regexp package on %d strings", n))
	}
	if bad := pf32SelfTest(); bad != "" {
		return inconclusive("ParseFloat(32) model disagrees with strconv: " + bad)
	}

	// native replay binaries are built while the exploration runs
	pkgSet := map[string]bool{}
	for _, e := range entries {
		pkgSet[e.Pkg.Pkg.Name()] = true
	}
	var pkgNames []string
	for p := range pkgSet {
		pkgNames = append(pkgNames, p)
	}
	sort.Strings(pkgNames)
	nbCh := make(chan *nativeBuild, 1)
	go func() { nbCh <- buildNative(o.repo, workDir, hf, pkgNames) }()

	var xs []*explorer
	deadline := time.Time{}
	if v := os.Getenv("SYMGO_DEADLINE_S"); v != "" {
		if n, err := strconv.Atoi(v); err == nil {
			deadline = t0.Add(time.Duration(n) * time.Second)
		}
	}
	budget := 600 * time.Second
	if tier == "thorough" {
		budget = 45 * time.Minute
	}
	if v := os.Getenv("SYMGO_HARNESS_BUDGET_S"); v != "" {
		if n, err := strconv.Atoi(v); err == nil {
			budget = time.Duration(n) * time.Second
		}
	}
	for _, e := range entries {
		te := time.Now()
		w.setInitOrder(e)
		eo.Deadline = te.Add(budget)
		if !deadline.IsZero() && deadline.Before(eo.Deadline) {
			eo.Deadline = deadline
		}
		eoH := eo
		if e.Pkg.Pkg.Name() == "dag" {
			// native runs of dag scenarios follow a recorded delivery order through
			// gates with settle times (~0.1 s each): validate fewer of them
			eoH.ConcordMax = eo.ConcordMax / 10
		}
		x := explore(w, e, eoH)
		x.wall = time.Since(te).Seconds()
		xs = append(xs, x)
		fmt.Printf("[%s] %s: %d paths, %d decisions, ends %v, %d solver queries, %.1fs\n", prop, e.Name(), x.paths, x.transitions, sortedCounts(x.ends), x.queries, x.wall)
		if len(x.cuts) > 0 {
			fmt.Printf("[%s]   cuts: %v\n", prop, sortedCounts(x.cuts))
		}
	}
	fmt.Printf("[%s] solver stages: %s; cache hits %d\n", prop, stageSummary(), cacheHits)
	nb := <-nbCh
	if nb.err != nil {
		return inconclusive(nb.err.Error())
	}

	known := loadKnown(o.verif)
	var problems []string
	var confirmed []violation
	var knownHits []string
	replayN := 0

	for _, x := range xs {
		bin := nb.bins[x.entry.Pkg.Pkg.Name()]
		hr := harnessReport{Name: x.harness, Paths: x.paths, Transitions: x.transitions, Ends: x.ends, Cuts: x.cuts,
			Asserts: x.assertStats, Reach: x.reachSeen, Queries: x.queries, UnknownBr: x.unknownBr, MaxDecisions: x.maxTraceLen, WallS: x.wall}
		for _, r := range x.inconclusive {
			problems = append(problems, x.harness+": "+r)
		}
		if x.stoppedEarly {
			problems = append(problems, fmt.Sprintf("%s: exploration ended early after %d counterexample candidates (only matters if none of them is confirmed natively)", x.harness, x.vioSeen))
		}
		if x.budgetHit {
			problems = append(problems, fmt.Sprintf("%s: exploration budget exhausted after %d paths; the bound is not covered", x.harness, x.paths))
		}
		// vacuity: every label must be reached by a feasible path
		for _, l := range w.reachLabels(x.entry) {
			if x.reachSeen[l] == 0 {
				problems = append(problems, x.harness+": vacuity: label "+l+" not reached by any feasible path")
			}
		}
		for c := range x.cuts {
			if !strings.Contains(c, "outside bound") {
				problems = append(problems, x.harness+": unexpected cut: "+c)
			}
		}

		// concordance: symbolic paths replayed natively
		var cases []nativeCase
		exp := map[int]*nativeExpect{}
		for i, ps := range x.concord {
			id := i + 1
			cases = append(cases, nativeCase{ID: id, Entry: x.harness, Vars: ps.Model, Thorough: w.thorough, Sched: ps.Sched})
			exp[id] = ps.Expect
		}
		res, err := runNative(bin, workDir, x.harness+"_conc", cases)
		if err != nil {
			problems = append(problems, x.harness+": "+err.Error())
		}
		for _, c := range cases {
			r, ok := res[c.ID]
			if !ok {
				problems = append(problems, fmt.Sprintf("%s: no native result for concordance case %d", x.harness, c.ID))
				continue
			}
			hr.Concordance++
			if r.End == "assume-failed" {
				problems = append(problems, fmt.Sprintf("%s: concordance case %d: model does not satisfy the harness assumptions natively (model %v)", x.harness, c.ID, modelString(c.Vars)))
				continue
			}
			diffs := compareNative(exp[c.ID], r, x.entry.Pkg.Pkg.Name() == "dag")
			for _, d := range diffs {
				if strings.HasPrefix(d, "ASSERT-FAILS-NATIVELY ") {
					// a real counterexample found by native execution of a path model
					x.violations = append(x.violations, violation{Harness: x.harness, AssertID: strings.TrimPrefix(d, "ASSERT-FAILS-NATIVELY "), Model: c.Vars, Kind: "assert", Source: "concordance"})
				} else if r.End == "hang" {
					x.violations = append(x.violations, violation{Harness: x.harness, AssertID: "no-hang", Model: c.Vars, Kind: "hang", Source: "concordance"})
				} else if r.End == "panic" && r.Phase != "define" && exp[c.ID].End != "run-panic" {
					x.violations = append(x.violations, violation{Harness: x.harness, AssertID: "no-panic", Model: c.Vars, Kind: "panic", Detail: r.Panic, Source: "concordance"})
				} else {
					problems = append(problems, fmt.Sprintf("%s: concordance case %d: %s (model %v)", x.harness, c.ID, d, modelString(c.Vars)))
				}
			}
		}

		// violation candidates: native replay decides
		perKey := map[string]int{}
		var vcases []nativeCase
		var vlist []violation
		for _, v := range x.violations {
			k := v.AssertID
			perKey[k]++
			if perKey[k] > 12 {
				continue
			}
			vlist = append(vlist, v)
			vcases = append(vcases, nativeCase{ID: len(vlist), Entry: x.harness, Vars: v.Model, Thorough: w.thorough, Sched: v.Sched})
		}
		vres, err := runNative(bin, workDir, x.harness+"_vio", vcases)
		if err != nil {
			problems = append(problems, x.harness+": "+err.Error())
		}
		reported := map[string]bool{}
		for i, v := range vlist {
			r, ok := vres[i+1]
			if !ok {
				problems = append(problems, fmt.Sprintf("%s: no native result for counterexample of %s", x.harness, v.AssertID))
				continue
			}
			reproduced := false
			switch v.Kind {
			case "assert":
				for _, a := range r.Asserts {
					if a.ID == v.AssertID && !a.OK {
						reproduced = true
					}
				}
				if r.End == "panic" && r.Phase != "define" {
					reproduced = true
					v.Detail = "native run panics: " + r.Panic
				}
			case "panic":
				reproduced = r.End == "panic" && r.Phase != "define"
				if reproduced {
					v.Detail = r.Panic
				}
			case "hang":
				reproduced = r.End == "hang"
			}
			if !reproduced {
				problems = append(problems, fmt.Sprintf("%s: counterexample for %s does not reproduce natively (native end=%s) model %v decisions %s sched %v", x.harness, v.AssertID, r.End, modelString(v.Model), traceFull(v.Trace), v.Sched))
				continue
			}
			isKnown := false
			for _, k := range known {
				if k.matches(prop, v) {
					isKnown = true
					msg := fmt.Sprintf("KNOWN-FINDING: property=%s %s", prop, k.What)
					if !reported[msg] {
						reported[msg] = true
						knownHits = append(knownHits, msg)
					}
				}
			}
			if isKnown {
				continue
			}
			key := v.Harness + "/" + v.AssertID
			if reported[key] {
				continue
			}
			reported[key] = true
			replayN++
			rp := filepath.Join(o.verif, "work", "replays", fmt.Sprintf("%s_%s_%s_%d.json", prop, x.harness, sanitize(v.AssertID), replayN))
			os.MkdirAll(filepath.Dir(rp), 0o755)
			rf := replayFile{Property: prop, Harness: x.harness, Package: x.entry.Pkg.Pkg.Name(), Assert: v.AssertID, Kind: v.Kind, Vars: v.Model, Thorough: w.thorough, Detail: v.Detail, Source: v.Source, Readable: modelString(v.Model), Sched: v.Sched}
			data, _ := json.MarshalIndent(rf, "", " ")
			os.WriteFile(rp, data, 0o644)
			v.ReplayPath = rp
			confirmed = append(confirmed, v)
		}
		ev.Harnesses = append(ev.Harnesses, hr)
		ev.addExplorer(x)
	}

	ev.Inconclusive = problems
	ev.KnownHits = knownHits
	ev.Violations = confirmed
	ev.NativeBuildS = nb.secs
	for _, k := range knownHits {
		fmt.Println(k)
	}
	code := exitOK
	if len(confirmed) > 0 {
		for _, v := range confirmed {
			fmt.Printf("VIOLATION property=%s replay=%s\n", prop, v.ReplayPath)
			fmt.Printf("  harness=%s assertion=%s kind=%s found-by=%s inputs: %s %s\n", v.Harness, v.AssertID, v.Kind, v.Source, modelString(v.Model), v.Detail)
		}
		code = exitViolation
	} else if len(problems) > 0 {
		for i, p := range problems {
			if i > 30 {
				fmt.Printf("  ... %d more\n", len(problems)-i)
				break
			}
			fmt.Printf("INCONCLUSIVE property=%s reason=%s\n", prop, truncate(p, 1200))
		}
		code = exitInconclusive
	}
	ev.write()
	if code == exitOK {
		fmt.Printf("OK property=%s tier=%s paths=%d queries=%d native-validated=%d wall=%.1fs\n", prop, tier, ev.totalPaths(), ev.totalQueries(), ev.totalConcord(), time.Since(t0).Seconds())
	}
	if !o.keep && code == exitOK {
		os.RemoveAll(workDir)
	}
	return code
}

func traceFull(t []decision) string {
	var b strings.Builder
	for i, d := range t {
		if i > 0 {
			b.WriteByte('.')
		}
		fmt.Fprintf(&b, "%d", d.Choice)
	}
	return b.String()
}

func sanitize(s string) string {
	return strings.Map(func(r rune) rune {
		if r >= 'a' && r <= 'z' || r >= 'A' && r <= 'Z' || r >= '0' && r <= '9' || r == '-' {
			return r
		}
		return '_'
	}, s)
}

func modelString(m map[string]modelVal) string {
	var ks []string
	for k := range m {
		ks = append(ks, k)
	}
	sort.Strings(ks)
	var b []string
	for _, k := range ks {
		v := m[k]
		switch v.T {
		case "string":
			b = append(b, k+"="+v.Q)
		case "int":
			b = append(b, fmt.Sprintf("%s=%d", k, v.I))
		case "bool":
			b = append(b, fmt.Sprintf("%s=%v", k, v.B))
		case "float":
			b = append(b, fmt.Sprintf("%s=bits(%x)", k, v.Bits))
		}
	}
	return "{" + strings.Join(b, " ") + "}"
}

type replayFile struct {
	Property string              `json:"property"`
	Harness  string              `json:"harness"`
	Package  string              `json:"package"`
	Assert   string              `json:"assert"`
	Kind     string              `json:"kind"`
	Vars     map[string]modelVal `json:"vars"`
	Thorough bool                `json:"thorough"`
	Detail   string              `json:"detail,omitempty"`
	Source   string              `json:"found_by"`
	Readable string              `json:"inputs_readable"`
	Sched    []int64             `json:"sched,omitempty"`
}

// runReplay re-runs a recorded counterexample against the real build.
func runReplay(path string, o opts) int {
	data, err := os.ReadFile(path)
	if err != nil {
		fmt.Println(err)
		return 2
	}
	var rf replayFile
	if err := json.Unmarshal(data, &rf); err != nil {
		fmt.Println(err)
		return 2
	}
	workDir, _ := os.MkdirTemp(filepath.Join(o.verif, "work"), "replay-")
	if workDir == "" {
		os.MkdirAll(filepath.Join(o.verif, "work"), 0o755)
		workDir, _ = os.MkdirTemp(filepath.Join(o.verif, "work"), "replay-")
	}
	defer os.RemoveAll(workDir)
	hf, err := prepareOverlay(o.repo, o.verif, workDir)
	if err != nil {
		fmt.Println(err)
		return 2
	}
	nb := buildNative(o.repo, workDir, hf, []string{rf.Package})
	if nb.err != nil {
		fmt.Println(nb.err)
		return 2
	}
	res, err := runNative(nb.bins[rf.Package], workDir, "replay", []nativeCase{{ID: 1, Entry: rf.Harness, Vars: rf.Vars, Thorough: rf.Thorough, Sched: rf.Sched}})
	if err != nil {
		fmt.Println(err)
		return 2
	}
	r := res[1]
	out, _ := json.MarshalIndent(r, "", " ")
	fmt.Printf("inputs: %s\nnative result: %s\n", rf.Readable, out)
	reproduced := false
	switch rf.Kind {
	case "assert":
		for _, a := range r.Asserts {
			if a.ID == rf.Assert && !a.OK {
				reproduced = true
			}
		}
		if r.End == "panic" && r.Phase != "define" {
			reproduced = true
		}
	case "panic":
		reproduced = r.End == "panic" && r.Phase != "define"
	case "hang":
		reproduced = r.End == "hang"
	}
	if reproduced {
		fmt.Printf("REPRODUCED property=%s harness=%s assertion=%s\n", rf.Property, rf.Harness, rf.Assert)
		return 1
	}
	fmt.Printf("NOT-REPRODUCED property=%s harness=%s assertion=%s\n", rf.Property, rf.Harness, rf.Assert)
	return 0
}

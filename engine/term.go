package main

// Symbolic terms (SMT-LIB2) with light-weight simplification.

import (
	"fmt"
	"math"
	"sort"
	"strconv"
	"strings"
)

type Sort uint8

const (
	SBool Sort = iota
	SInt
	SStr
	SF64
	SRe
)

func (s Sort) smt() string {
	switch s {
	case SBool:
		return "Bool"
	case SInt:
		return "Int"
	case SStr:
		return "String"
	case SF64:
		return "Int" // float64 is modelled by its bit pattern
	}
	return "RegLan"
}

type Term struct {
	Op   string // "var", "cb", "ci", "cs", or an SMT operator
	Args []*Term
	Sort Sort
	Name string // var name
	B    bool
	I    int64
	S    string
	Big  string // big integer literal (decimal, non-negative) for op "cbig"
	// known integer range (valid when rng)
	rng    bool
	lo, hi int64
	key    string
}

func (t *Term) String() string { return t.key }

func (t *Term) isConst() bool { return t.Op == "cb" || t.Op == "ci" || t.Op == "cs" }

var (
	tTrue  = &Term{Op: "cb", Sort: SBool, B: true, key: "true"}
	tFalse = &Term{Op: "cb", Sort: SBool, B: false, key: "false"}
)

func mkBool(b bool) *Term {
	if b {
		return tTrue
	}
	return tFalse
}

func mkInt(i int64) *Term {
	t := &Term{Op: "ci", Sort: SInt, I: i, rng: true, lo: i, hi: i}
	if i < 0 {
		if i == math.MinInt64 {
			t.key = "(- 9223372036854775808)"
		} else {
			t.key = "(- " + strconv.FormatInt(-i, 10) + ")"
		}
	} else {
		t.key = strconv.FormatInt(i, 10)
	}
	return t
}

func mkBig(dec string) *Term {
	return &Term{Op: "cbig", Sort: SInt, Big: dec, key: dec}
}

func smtStrLit(s string) string {
	var b strings.Builder
	b.WriteByte('"')
	for i := 0; i < len(s); i++ {
		c := s[i]
		switch {
		case c == '"':
			b.WriteString(`""`)
		case c == '\\':
			b.WriteString(`\u{5c}`)
		case c >= 0x20 && c < 0x7f:
			b.WriteByte(c)
		default:
			fmt.Fprintf(&b, `\u{%x}`, c)
		}
	}
	b.WriteByte('"')
	return b.String()
}

func mkStr(s string) *Term {
	return &Term{Op: "cs", Sort: SStr, S: s, key: smtStrLit(s)}
}

func mkVar(name string, s Sort) *Term {
	return &Term{Op: "var", Sort: s, Name: name, key: "|" + name + "|"}
}

func mkF64(bits uint64) *Term {
	t := mkInt(int64(bits))
	return &Term{Op: "ci", Sort: SF64, I: int64(bits), key: t.key}
}

func mkVarRange(name string, lo, hi int64) *Term {
	t := mkVar(name, SInt)
	t.rng, t.lo, t.hi = true, lo, hi
	return t
}

func rawApp(op string, s Sort, args ...*Term) *Term {
	t := &Term{Op: op, Sort: s, Args: args}
	var b strings.Builder
	b.WriteByte('(')
	b.WriteString(op)
	for _, a := range args {
		b.WriteByte(' ')
		b.WriteString(a.key)
	}
	b.WriteByte(')')
	t.key = b.String()
	return t
}

// ---------- boolean ----------

func mkNot(a *Term) *Term {
	if a.Op == "cb" {
		return mkBool(!a.B)
	}
	if a.Op == "not" {
		return a.Args[0]
	}
	return rawApp("not", SBool, a)
}

func mkAnd(args ...*Term) *Term {
	var out []*Term
	seen := map[string]bool{}
	for _, a := range args {
		if a.Op == "cb" {
			if !a.B {
				return tFalse
			}
			continue
		}
		if a.Op == "and" {
			for _, x := range a.Args {
				if !seen[x.key] {
					seen[x.key] = true
					out = append(out, x)
				}
			}
			continue
		}
		if !seen[a.key] {
			seen[a.key] = true
			out = append(out, a)
		}
	}
	for _, a := range out {
		if a.Op == "not" && seen[a.Args[0].key] {
			return tFalse
		}
	}
	if len(out) == 0 {
		return tTrue
	}
	if len(out) == 1 {
		return out[0]
	}
	return rawApp("and", SBool, out...)
}

func mkOr(args ...*Term) *Term {
	var out []*Term
	seen := map[string]bool{}
	for _, a := range args {
		if a.Op == "cb" {
			if a.B {
				return tTrue
			}
			continue
		}
		if a.Op == "or" {
			for _, x := range a.Args {
				if !seen[x.key] {
					seen[x.key] = true
					out = append(out, x)
				}
			}
			continue
		}
		if !seen[a.key] {
			seen[a.key] = true
			out = append(out, a)
		}
	}
	for _, a := range out {
		if a.Op == "not" && seen[a.Args[0].key] {
			return tTrue
		}
	}
	if len(out) == 0 {
		return tFalse
	}
	if len(out) == 1 {
		return out[0]
	}
	return rawApp("or", SBool, out...)
}

func mkImplies(a, b *Term) *Term { return mkOr(mkNot(a), b) }

func mkIte(c, a, b *Term) *Term {
	if c.Op == "cb" {
		if c.B {
			return a
		}
		return b
	}
	if a.key == b.key {
		return a
	}
	if a.Sort == SBool {
		if a.Op == "cb" && b.Op == "cb" {
			if a.B {
				return c
			}
			return mkNot(c)
		}
	}
	t := rawApp("ite", a.Sort, c, a, b)
	if a.rng && b.rng {
		t.rng = true
		t.lo, t.hi = min64(a.lo, b.lo), max64(a.hi, b.hi)
	}
	return t
}

func min64(a, b int64) int64 {
	if a < b {
		return a
	}
	return b
}
func max64(a, b int64) int64 {
	if a > b {
		return a
	}
	return b
}

// ---------- strings ----------

func concatParts(t *Term) []*Term {
	if t.Op == "str.++" {
		return t.Args
	}
	if t.Op == "cs" && t.S == "" {
		return nil
	}
	return []*Term{t}
}

func mkConcat(args ...*Term) *Term {
	var out []*Term
	for _, a := range args {
		for _, p := range concatParts(a) {
			if p.Op == "cs" && len(out) > 0 && out[len(out)-1].Op == "cs" {
				out[len(out)-1] = mkStr(out[len(out)-1].S + p.S)
			} else {
				out = append(out, p)
			}
		}
	}
	if len(out) == 0 {
		return mkStr("")
	}
	if len(out) == 1 {
		return out[0]
	}
	return rawApp("str.++", SStr, out...)
}

const maxStrLen = int64(1) << 40

func mkLen(s *Term) *Term {
	if s.Op == "cs" {
		return mkInt(int64(len(s.S)))
	}
	if s.Op == "str.++" {
		var sum []*Term
		for _, p := range s.Args {
			sum = append(sum, mkLen(p))
		}
		return mkAdd(sum...)
	}
	t := rawApp("str.len", SInt, s)
	t.rng, t.lo, t.hi = true, 0, maxStrLen
	return t
}

// minLen returns a lower bound of the length of s.
func minLen(s *Term) int64 {
	n := int64(0)
	for _, p := range concatParts(s) {
		if p.Op == "cs" {
			n += int64(len(p.S))
		}
	}
	return n
}

func constPrefix(s *Term) string {
	ps := concatParts(s)
	if len(ps) > 0 && ps[0].Op == "cs" {
		return ps[0].S
	}
	return ""
}

func constSuffix(s *Term) string {
	ps := concatParts(s)
	if len(ps) > 0 && ps[len(ps)-1].Op == "cs" {
		return ps[len(ps)-1].S
	}
	return ""
}

func isFullyConst(s *Term) bool { return s.Op == "cs" }

func ciRegex(s string) *Term {
	var parts []*Term
	for i := 0; i < len(s); i++ {
		c := s[i]
		switch {
		case c >= 'a' && c <= 'z':
			parts = append(parts, reUnion(reLit(string([]byte{c})), reLit(string([]byte{c - 32}))))
		case c >= 'A' && c <= 'Z':
			parts = append(parts, reUnion(reLit(string([]byte{c + 32})), reLit(string([]byte{c}))))
		default:
			parts = append(parts, reLit(string([]byte{c})))
		}
	}
	if len(parts) == 0 {
		return reLit("")
	}
	return reConcat(parts...)
}

func mkStrEq(a, b *Term) *Term {
	if a.key == b.key {
		return tTrue
	}
	// strings.ToLower(x) compared with a constant: case-insensitive membership
	if a.Op == "go.tolower" && b.Op == "cs" {
		a, b = b, a
	}
	if b.Op == "go.tolower" && a.Op == "cs" {
		if strings.ToLower(a.S) != a.S {
			return tFalse
		}
		for i := 0; i < len(a.S); i++ {
			if a.S[i] >= 0x80 {
				return rawApp("=", SBool, a, b)
			}
		}
		return mkInRe(b.Args[0], ciRegex(a.S))
	}
	if a.Op == "cs" && b.Op == "cs" {
		return mkBool(a.S == b.S)
	}
	// strip common leading/trailing parts
	pa, pb := concatParts(a), concatParts(b)
	changed := false
	for len(pa) > 0 && len(pb) > 0 {
		x, y := pa[0], pb[0]
		if x.key == y.key {
			pa, pb = pa[1:], pb[1:]
			changed = true
			continue
		}
		if x.Op == "cs" && y.Op == "cs" {
			n := len(x.S)
			if len(y.S) < n {
				n = len(y.S)
			}
			if x.S[:n] != y.S[:n] {
				return tFalse
			}
			pa = append([]*Term{}, pa...)
			pb = append([]*Term{}, pb...)
			if len(x.S) == n {
				pa = pa[1:]
			} else {
				pa[0] = mkStr(x.S[n:])
			}
			if len(y.S) == n {
				pb = pb[1:]
			} else {
				pb[0] = mkStr(y.S[n:])
			}
			changed = true
			continue
		}
		break
	}
	for len(pa) > 0 && len(pb) > 0 {
		x, y := pa[len(pa)-1], pb[len(pb)-1]
		if x.key == y.key {
			pa, pb = pa[:len(pa)-1], pb[:len(pb)-1]
			changed = true
			continue
		}
		if x.Op == "cs" && y.Op == "cs" {
			n := len(x.S)
			if len(y.S) < n {
				n = len(y.S)
			}
			if x.S[len(x.S)-n:] != y.S[len(y.S)-n:] {
				return tFalse
			}
			pa = append([]*Term{}, pa...)
			pb = append([]*Term{}, pb...)
			if len(x.S) == n {
				pa = pa[:len(pa)-1]
			} else {
				pa[len(pa)-1] = mkStr(x.S[:len(x.S)-n])
			}
			if len(y.S) == n {
				pb = pb[:len(pb)-1]
			} else {
				pb[len(pb)-1] = mkStr(y.S[:len(y.S)-n])
			}
			changed = true
			continue
		}
		break
	}
	if changed {
		a, b = mkConcat(pa...), mkConcat(pb...)
		if a.key == b.key {
			return tTrue
		}
		if a.Op == "cs" && b.Op == "cs" {
			return mkBool(a.S == b.S)
		}
	}
	// length lower bound vs constant
	if a.Op == "cs" && minLen(b) > int64(len(a.S)) {
		return tFalse
	}
	if b.Op == "cs" && minLen(a) > int64(len(b.S)) {
		return tFalse
	}
	if a.key > b.key {
		a, b = b, a
	}
	return rawApp("=", SBool, a, b)
}

func mkPrefixOf(p, s *Term) *Term { // p is a prefix of s
	if p.Op == "cs" {
		if p.S == "" {
			return tTrue
		}
		cp := constPrefix(s)
		if len(cp) >= len(p.S) {
			return mkBool(strings.HasPrefix(cp, p.S))
		}
		if !strings.HasPrefix(p.S, cp) {
			return tFalse
		}
		if s.Op == "cs" {
			return mkBool(strings.HasPrefix(s.S, p.S))
		}
	}
	if p.key == s.key {
		return tTrue
	}
	// p is the leading part of s
	ps, ss := concatParts(p), concatParts(s)
	if len(ps) <= len(ss) {
		same := true
		for i := range ps {
			if ps[i].key != ss[i].key {
				same = false
				break
			}
		}
		if same {
			return tTrue
		}
	}
	return rawApp("str.prefixof", SBool, p, s)
}

func mkSuffixOf(p, s *Term) *Term {
	if p.Op == "cs" {
		if p.S == "" {
			return tTrue
		}
		cs := constSuffix(s)
		if len(cs) >= len(p.S) {
			return mkBool(strings.HasSuffix(cs, p.S))
		}
		if !strings.HasSuffix(p.S, cs) {
			return tFalse
		}
		if s.Op == "cs" {
			return mkBool(strings.HasSuffix(s.S, p.S))
		}
	}
	if p.key == s.key {
		return tTrue
	}
	return rawApp("str.suffixof", SBool, p, s)
}

func mkContains(s, sub *Term) *Term { // s contains sub
	if sub.Op == "cs" {
		if sub.S == "" {
			return tTrue
		}
		if s.Op == "cs" {
			return mkBool(strings.Contains(s.S, sub.S))
		}
		for _, p := range concatParts(s) {
			if p.Op == "cs" && strings.Contains(p.S, sub.S) {
				return tTrue
			}
		}
	}
	if s.Op == "cs" && s.S == "" {
		return mkStrEq(sub, mkStr(""))
	}
	for _, p := range concatParts(s) {
		if p.key == sub.key {
			return tTrue
		}
	}
	if sub.Op == "str.++" && s.Op == "str.++" && concatInside(s.Args, sub.Args) {
		return tTrue
	}
	if sub.Op == "cs" && len(sub.S) >= 1 && s.Op == "str.from_int" {
		for i := 0; i < len(sub.S); i++ {
			if sub.S[i] < '0' || sub.S[i] > '9' {
				return tFalse
			}
		}
	}
	if sub.Op == "cs" && len(sub.S) == 1 && s.Op == "str.++" {
		// a one-character needle cannot straddle parts
		var alts []*Term
		for _, p := range s.Args {
			if p.Op == "cs" {
				continue // already known not to contain it
			}
			alts = append(alts, rawApp("str.contains", SBool, p, sub))
		}
		return mkOr(alts...)
	}
	return rawApp("str.contains", SBool, s, sub)
}

// concatInside: the part sequence sub occurs inside the part sequence s
// (first and last constant parts of sub may match a suffix / prefix of the
// corresponding constant parts of s).
func concatInside(s, sub []*Term) bool {
	n := len(sub)
	for i := 0; i+n <= len(s); i++ {
		ok := true
		for j := 0; j < n && ok; j++ {
			a, b := s[i+j], sub[j]
			switch {
			case a.key == b.key:
			case a.Op == "cs" && b.Op == "cs" && j == 0 && n > 1:
				ok = strings.HasSuffix(a.S, b.S)
			case a.Op == "cs" && b.Op == "cs" && j == n-1 && n > 1:
				ok = strings.HasPrefix(a.S, b.S)
			default:
				ok = false
			}
		}
		if ok {
			return true
		}
	}
	return false
}

func mkAt(s, i *Term) *Term {
	if s.Op == "cs" && i.Op == "ci" {
		if i.I >= 0 && i.I < int64(len(s.S)) {
			return mkStr(s.S[i.I : i.I+1])
		}
		return mkStr("")
	}
	if i.Op == "ci" && i.I >= 0 {
		cp := constPrefix(s)
		if i.I < int64(len(cp)) {
			return mkStr(cp[i.I : i.I+1])
		}
	}
	return rawApp("str.at", SStr, s, i)
}

func mkSubstr(s, off, n *Term) *Term {
	if s.Op == "cs" && off.Op == "ci" && n.Op == "ci" {
		o, l := off.I, n.I
		if o < 0 || o > int64(len(s.S)) || l <= 0 {
			return mkStr("")
		}
		e := o + l
		if e > int64(len(s.S)) {
			e = int64(len(s.S))
		}
		return mkStr(s.S[o:e])
	}
	return rawApp("str.substr", SStr, s, off, n)
}

func mkToCode(s *Term) *Term {
	if s.Op == "cs" {
		if len(s.S) == 1 {
			return mkInt(int64(s.S[0]))
		}
		return mkInt(-1)
	}
	t := rawApp("str.to_code", SInt, s)
	t.rng, t.lo, t.hi = true, -1, 0x2ffff
	return t
}

func mkStrToInt(s *Term) *Term { // SMT str.to_int: -1 if not all digits
	if s.Op == "cs" {
		ok := len(s.S) > 0 && len(s.S) < 18
		for i := 0; i < len(s.S); i++ {
			if s.S[i] < '0' || s.S[i] > '9' {
				ok = false
			}
		}
		if ok {
			v, _ := strconv.ParseInt(s.S, 10, 64)
			return mkInt(v)
		}
		if len(s.S) < 18 {
			return mkInt(-1)
		}
	}
	return rawApp("str.to_int", SInt, s)
}

func mkStrFromInt(i *Term) *Term { // SMT str.from_int: "" for negatives
	if i.Op == "ci" {
		if i.I < 0 {
			return mkStr("")
		}
		return mkStr(strconv.FormatInt(i.I, 10))
	}
	return rawApp("str.from_int", SStr, i)
}

// ---------- regular expressions ----------

func reLit(s string) *Term { return rawApp("str.to_re", SRe, mkStr(s)) }
func reRange(a, b byte) *Term {
	return rawApp("re.range", SRe, mkStr(string([]byte{a})), mkStr(string([]byte{b})))
}
func reUnion(a ...*Term) *Term {
	if len(a) == 1 {
		return a[0]
	}
	return rawApp("re.union", SRe, a...)
}
func reConcat(a ...*Term) *Term {
	if len(a) == 1 {
		return a[0]
	}
	return rawApp("re.++", SRe, a...)
}
func reStar(a *Term) *Term { return rawApp("re.*", SRe, a) }
func rePlus(a *Term) *Term { return rawApp("re.+", SRe, a) }
func reOpt(a *Term) *Term  { return rawApp("re.opt", SRe, a) }

// reByteSet builds a regex matching one byte from the set given as a 256-bit table.
func reByteSet(in func(b int) bool) *Term {
	var parts []*Term
	i := 0
	for i < 256 {
		if !in(i) {
			i++
			continue
		}
		j := i
		for j+1 < 256 && in(j+1) {
			j++
		}
		parts = append(parts, reRange(byte(i), byte(j)))
		i = j + 1
	}
	if len(parts) == 0 {
		return &Term{Op: "re.none", Sort: SRe, key: "re.none"}
	}
	return reUnion(parts...)
}

func mkInRe(s, re *Term) *Term {
	return rawApp("str.in_re", SBool, s, re)
}

// ---------- integers ----------

func mkAdd(args ...*Term) *Term {
	var out []*Term
	c := int64(0)
	for _, a := range args {
		if a.Op == "+" {
			for _, x := range a.Args {
				if x.Op == "ci" {
					c += x.I
				} else {
					out = append(out, x)
				}
			}
			continue
		}
		if a.Op == "ci" {
			c += a.I
			continue
		}
		out = append(out, a)
	}
	if len(out) == 0 {
		return mkInt(c)
	}
	if c != 0 {
		out = append(out, mkInt(c))
	}
	if len(out) == 1 {
		return out[0]
	}
	t := rawApp("+", SInt, out...)
	// range
	ok := true
	var lo, hi int64
	for _, a := range out {
		if !a.rng {
			ok = false
			break
		}
		var o1, o2 bool
		lo, o1 = addOv(lo, a.lo)
		hi, o2 = addOv(hi, a.hi)
		if o1 || o2 {
			ok = false
			break
		}
	}
	if ok {
		t.rng, t.lo, t.hi = true, lo, hi
	}
	return t
}

func addOv(a, b int64) (int64, bool) {
	c := a + b
	if (c > a) == (b > 0) || b == 0 {
		return c, false
	}
	return c, true
}

func mkNeg(a *Term) *Term {
	if a.Op == "ci" && a.I != math.MinInt64 {
		return mkInt(-a.I)
	}
	t := rawApp("-", SInt, a)
	if a.rng && a.lo != math.MinInt64 {
		t.rng, t.lo, t.hi = true, -a.hi, -a.lo
	}
	return t
}

func mkSub(a, b *Term) *Term {
	if b.Op == "ci" && b.I != math.MinInt64 {
		return mkAdd(a, mkInt(-b.I))
	}
	if a.key == b.key {
		return mkInt(0)
	}
	t := rawApp("-", SInt, a, b)
	if a.rng && b.rng {
		lo, o1 := addOv(a.lo, -b.hi)
		hi, o2 := addOv(a.hi, -b.lo)
		if !o1 && !o2 && b.hi != math.MinInt64 && b.lo != math.MinInt64 {
			t.rng, t.lo, t.hi = true, lo, hi
		}
	}
	return t
}

func mkMul(a, b *Term) *Term {
	if a.Op == "ci" && b.Op == "ci" {
		hi, lo := mul64(a.I, b.I)
		if hi {
			return rawApp("*", SInt, a, b)
		}
		return mkInt(lo)
	}
	if a.Op == "ci" && a.I == 1 {
		return b
	}
	if b.Op == "ci" && b.I == 1 {
		return a
	}
	if (a.Op == "ci" && a.I == 0) || (b.Op == "ci" && b.I == 0) {
		return mkInt(0)
	}
	t := rawApp("*", SInt, a, b)
	if a.rng && b.rng {
		small := func(x int64) bool { return x > -(1<<31) && x < (1<<31) }
		if small(a.lo) && small(a.hi) && small(b.lo) && small(b.hi) {
			c := []int64{a.lo * b.lo, a.lo * b.hi, a.hi * b.lo, a.hi * b.hi}
			sort.Slice(c, func(i, j int) bool { return c[i] < c[j] })
			t.rng, t.lo, t.hi = true, c[0], c[3]
		}
	}
	return t
}

func mul64(a, b int64) (overflow bool, r int64) {
	if a == 0 || b == 0 {
		return false, 0
	}
	r = a * b
	if r/b != a || (a == -1 && b == math.MinInt64) || (b == -1 && a == math.MinInt64) {
		return true, r
	}
	return false, r
}

func mkCmp(op string, a, b *Term) *Term { // op in < <= > >=
	if a.Op == "ci" && b.Op == "ci" {
		switch op {
		case "<":
			return mkBool(a.I < b.I)
		case "<=":
			return mkBool(a.I <= b.I)
		case ">":
			return mkBool(a.I > b.I)
		case ">=":
			return mkBool(a.I >= b.I)
		}
	}
	if a.rng && b.rng {
		switch op {
		case "<":
			if a.hi < b.lo {
				return tTrue
			}
			if a.lo >= b.hi {
				return tFalse
			}
		case "<=":
			if a.hi <= b.lo {
				return tTrue
			}
			if a.lo > b.hi {
				return tFalse
			}
		case ">":
			if a.lo > b.hi {
				return tTrue
			}
			if a.hi <= b.lo {
				return tFalse
			}
		case ">=":
			if a.lo >= b.hi {
				return tTrue
			}
			if a.hi < b.lo {
				return tFalse
			}
		}
	}
	if a.key == b.key {
		return mkBool(op == "<=" || op == ">=")
	}
	return rawApp(op, SBool, a, b)
}

func mkIntEq(a, b *Term) *Term {
	if a.key == b.key {
		return tTrue
	}
	if a.Op == "ci" && b.Op == "ci" {
		return mkBool(a.I == b.I)
	}
	if a.rng && b.rng && (a.hi < b.lo || b.hi < a.lo) {
		return tFalse
	}
	if a.key > b.key {
		a, b = b, a
	}
	return rawApp("=", SBool, a, b)
}

func mkEq(a, b *Term) *Term {
	switch a.Sort {
	case SStr:
		return mkStrEq(a, b)
	case SInt:
		return mkIntEq(a, b)
	case SBool:
		if a.key == b.key {
			return tTrue
		}
		if a.Op == "cb" {
			if a.B {
				return b
			}
			return mkNot(b)
		}
		if b.Op == "cb" {
			if b.B {
				return a
			}
			return mkNot(a)
		}
	}
	if a.key == b.key {
		return tTrue
	}
	if a.Op == "ci" && b.Op == "ci" {
		return mkBool(a.I == b.I)
	}
	if a.key > b.key {
		a, b = b, a
	}
	return rawApp("=", SBool, a, b)
}

// wrapInt normalises an integer term into the range of a Go integer type of
// the given bit size and signedness (two's complement wrap-around).
func wrapInt(t *Term, bits int, signed bool) *Term {
	var lo, hi int64
	var modS string
	switch {
	case signed && bits == 64:
		lo, hi, modS = math.MinInt64, math.MaxInt64, "18446744073709551616"
	case signed && bits == 32:
		lo, hi, modS = math.MinInt32, math.MaxInt32, "4294967296"
	case signed && bits == 16:
		lo, hi, modS = math.MinInt16, math.MaxInt16, "65536"
	case signed && bits == 8:
		lo, hi, modS = math.MinInt8, math.MaxInt8, "256"
	case !signed && bits == 8:
		lo, hi, modS = 0, 255, "256"
	case !signed && bits == 16:
		lo, hi, modS = 0, 65535, "65536"
	case !signed && bits == 32:
		lo, hi, modS = 0, math.MaxUint32, "4294967296"
	default:
		return t // uint64: not modelled precisely
	}
	if t.rng && t.lo >= lo && t.hi <= hi {
		return t
	}
	if t.Op == "ci" {
		return t
	}
	mod := mkBig(modS)
	// single wrap is enough for + and - of in-range operands; for * use mod.
	if t.Op == "*" {
		m := rawApp("mod", SInt, rawApp("+", SInt, t, mkBig(modS)), mod) // in [0,mod)
		if !signed {
			m.rng, m.lo, m.hi = true, lo, hi
			return m
		}
		r := rawApp("ite", SInt, rawApp(">", SBool, m, mkInt(hi)), rawApp("-", SInt, m, mod), m)
		r.rng, r.lo, r.hi = true, lo, hi
		return r
	}
	r := rawApp("ite", SInt, rawApp(">", SBool, t, mkInt(hi)), rawApp("-", SInt, t, mod),
		rawApp("ite", SInt, rawApp("<", SBool, t, mkInt(lo)), rawApp("+", SInt, t, mod), t))
	r.rng, r.lo, r.hi = true, lo, hi
	return r
}

// ---------- traversal ----------

func (t *Term) walk(f func(*Term)) {
	f(t)
	for _, a := range t.Args {
		a.walk(f)
	}
}

// collectVars adds the free variables of t into m.
func collectVars(t *Term, m map[string]*Term) {
	t.walk(func(x *Term) {
		if x.Op == "var" {
			m[x.Name] = x
		}
	})
}

// mkOp rebuilds an application through the simplifying constructors.
func mkOp(t *Term, args []*Term) *Term {
	switch t.Op {
	case "not":
		return mkNot(args[0])
	case "and":
		return mkAnd(args...)
	case "or":
		return mkOr(args...)
	case "ite":
		return mkIte(args[0], args[1], args[2])
	case "=":
		return mkEq(args[0], args[1])
	case "<", "<=", ">", ">=":
		return mkCmp(t.Op, args[0], args[1])
	case "+":
		return mkAdd(args...)
	case "-":
		if len(args) == 1 {
			return mkNeg(args[0])
		}
		return mkSub(args[0], args[1])
	case "*":
		return mkMul(args[0], args[1])
	case "str.++":
		return mkConcat(args...)
	case "str.len":
		return mkLen(args[0])
	case "str.prefixof":
		return mkPrefixOf(args[0], args[1])
	case "str.suffixof":
		return mkSuffixOf(args[0], args[1])
	case "str.contains":
		return mkContains(args[0], args[1])
	case "str.at":
		return mkAt(args[0], args[1])
	case "str.to_code":
		return mkToCode(args[0])
	case "str.to_int":
		return mkStrToInt(args[0])
	case "str.from_int":
		return mkStrFromInt(args[0])
	}
	n := rawApp(t.Op, t.Sort, args...)
	if len(t.Args) == 0 || t.Op == "re.loop" {
		return t
	}
	n.rng, n.lo, n.hi = t.rng, t.lo, t.hi
	// keep custom keys of indexed operators
	if t.Op != "" && t.key != "" && t.key[0] == '(' && len(t.key) > 2 && t.key[1] == '(' {
		return t
	}
	return n
}

// substTerm replaces variables by the given terms and re-simplifies.
func substTerm(t *Term, env map[string]*Term) *Term {
	if len(env) == 0 {
		return t
	}
	switch t.Op {
	case "var":
		if r, ok := env[t.Name]; ok {
			return r
		}
		return t
	case "cb", "ci", "cs", "cbig":
		return t
	}
	if t.Sort == SRe {
		return t
	}
	changed := false
	args := make([]*Term, len(t.Args))
	for i, a := range t.Args {
		args[i] = substTerm(a, env)
		if args[i] != a {
			changed = true
		}
	}
	if !changed {
		return t
	}
	return mkOp(t, args)
}

package main

// Models of standard-library functions (the trusted base of the encoding).

import (
	"fmt"
	"go/types"
	"path/filepath"
	"sort"
	"strconv"
	"strings"

	"golang.org/x/tools/go/ssa"
)

type intrinsic func(m *machine, fr *frame, args []value) value

var intrinsics map[string]intrinsic

func init() {
	intrinsics = map[string]intrinsic{
		"strings.HasPrefix":  iHasPrefix,
		"strings.HasSuffix":  iHasSuffix,
		"strings.Contains":   iContains,
		"strings.TrimPrefix": iTrimPrefix,
		"strings.TrimSuffix": iTrimSuffix,
		"strings.SplitN":     iSplitN,
		"strings.Split":      iSplit,
		"strings.Join":       iJoin,
		"strings.Repeat":     iRepeat,
		"strings.ReplaceAll": iReplaceAll,
		"strings.ToLower":    iToLower,
		"strings.Index":      iIndex,
		"strings.Count":      iCount,
		"strings.LastIndex":  iLastIndex,
		"strings.TrimLeft":   iTrimLeft,
		"strconv.ParseBool":  iParseBool,
		"strconv.ParseInt":   iParseInt,

		"strconv.Atoi":       iAtoi,
		"strconv.ParseFloat": iParseFloat,
		"strconv.Itoa":       iItoa,

		"fmt.Sprintf":  iSprintf,
		"fmt.Errorf":   iErrorf,
		"fmt.Fprintf":  iFprintf,
		"fmt.Fprint":   iFprint,
		"fmt.Fprintln": iFprintln,
		"fmt.Sprint":   iSprint,
		"fmt.Println":  func(m *machine, fr *frame, args []value) value { return tuple{int64(0), iface{}} },
		"fmt.Printf":   func(m *machine, fr *frame, args []value) value { return tuple{int64(0), iface{}} },

		"errors.New": iErrorsNew,
		"errors.Is":  iErrorsIs,
		"errors.As":  iErrorsAs,

		"sort.Strings": iSortStrings,
		"sort.StringsAreSorted": func(m *machine, fr *frame, args []value) value {
			x, _ := args[0].([]value)
			for i := 1; i < len(x); i++ {
				if m.strLess(x[i], x[i-1]) {
					return false
				}
			}
			return true
		},
		"sort.Slice": iSortSlice,

		"regexp.MustCompile":                  iRegexpMustCompile,
		"(*regexp.Regexp).FindStringSubmatch": iFindStringSubmatch,
		"(*regexp.Regexp).Split":              iRegexpSplit,

		"os.Getenv": iGetenv,
		"os.Exit":   func(m *machine, fr *frame, args []value) value { panic(exitPanic{args[0]}) },
		"path/filepath.Base": func(m *machine, fr *frame, args []value) value {
			return filepath.Base(concreteStr(args[0], "filepath.Base argument"))
		},

		"log.New":                 func(m *machine, fr *frame, args []value) value { c := value(&opaque{kind: "log.Logger"}); return &c },
		"(*log.Logger).Printf":    noop,
		"(*log.Logger).Print":     noop,
		"(*log.Logger).Println":   noop,
		"(*log.Logger).SetPrefix": noop,
		"(*log.Logger).SetOutput": noop,
		"(*log.Logger).SetFlags":  noop,

		"time.Sleep": iSleep,
		"time.Now": func(m *machine, fr *frame, args []value) value {
			return zero(m.w.prog.ImportedPackage("time").Type("Time").Type())
		},
		"time.Since": func(m *machine, fr *frame, args []value) value { return int64(0) },
		"(*sync.Once).Do": func(m *machine, fr *frame, args []value) value {
			o := args[0].(*value)
			if m.onces == nil {
				m.onces = map[*value]bool{}
			}
			if m.onces[o] {
				return nil
			}
			m.onces[o] = true
			m.call(fr, 0, args[1], nil)
			return nil
		},
		"(*sync.Mutex).Lock":          iMutexLock,
		"(*sync.Mutex).Unlock":        iMutexUnlock,
		"context.WithValue":           iContextWithValue,
		"context.Background":          func(m *machine, fr *frame, args []value) value { return m.ctxValue(&ctxState{}) },
		"(*bytes.Buffer).WriteTo":     iBufferWriteTo,
		"(*bytes.Buffer).String":      iBufferString,
		"(*bytes.Buffer).Len":         iBufferLen,
		"(*bytes.Buffer).WriteString": iBufferWriteString,
		"runtime.Gosched":             noop,

		"math.Float64bits": func(m *machine, fr *frame, args []value) value {
			switch x := args[0].(type) {
			case float64:
				return int64(f64bits(x))
			case *Term:
				return &Term{Op: x.Op, Args: x.Args, Sort: SInt, Name: x.Name, I: x.I, key: x.key}
			}
			panic("Float64bits")
		},
	}
}

func noop(m *machine, fr *frame, args []value) value { return nil }

func strArg(v value) (*Term, bool) { // returns term and whether concrete
	switch v := v.(type) {
	case string:
		return mkStr(v), true
	case *Term:
		return v, v.Op == "cs"
	}
	panic(fmt.Sprintf("strArg: %T", v))
}

// ---------- strings ----------

func iHasPrefix(m *machine, fr *frame, args []value) value {
	s, _ := strArg(args[0])
	p, _ := strArg(args[1])
	return fromTerm(mkPrefixOf(p, s))
}

func iHasSuffix(m *machine, fr *frame, args []value) value {
	s, _ := strArg(args[0])
	p, _ := strArg(args[1])
	return fromTerm(mkSuffixOf(p, s))
}

func iContains(m *machine, fr *frame, args []value) value {
	s, _ := strArg(args[0])
	p, _ := strArg(args[1])
	return fromTerm(mkContains(s, p))
}

func iIndex(m *machine, fr *frame, args []value) value {
	s, sc := strArg(args[0])
	p, pc := strArg(args[1])
	if sc && pc {
		return int64(strings.Index(s.S, p.S))
	}
	t := rawApp("str.indexof", SInt, s, p, mkInt(0))
	t.rng, t.lo, t.hi = true, -1, maxStrLen
	return t
}

// iLastIndex: strings.LastIndex for a one-byte needle over a concatenation: the
// last constant part containing it decides, provided no later part can contain it.
func iLastIndex(m *machine, fr *frame, args []value) value {
	s, sc := strArg(args[0])
	nd, nc := strArg(args[1])
	if sc && nc {
		return int64(strings.LastIndex(s.S, nd.S))
	}
	if !nc || len(nd.S) != 1 {
		panic(cut{"strings.LastIndex with a symbolic or multi-byte needle on symbolic string"})
	}
	parts := concatParts(s)
	for i := len(parts) - 1; i >= 0; i-- {
		p := parts[i]
		if p.Op == "cs" {
			if idx := strings.LastIndex(p.S, nd.S); idx >= 0 {
				var lens []*Term
				for _, q := range parts[:i] {
					lens = append(lens, mkLen(q))
				}
				lens = append(lens, mkInt(int64(idx)))
				return fromTerm(mkAdd(lens...))
			}
			continue
		}
		if !m.cannotContain(p, nd.S[0]) {
			if m.branch(mkContains(p, nd)) {
				panic(cut{"strings.LastIndex: the needle may occur inside a symbolic part (outside bound)"})
			}
		}
	}
	return int64(-1)
}

// iTrimLeft: strings.TrimLeft(s, cutset) for a concrete cutset of ASCII
// characters; at most 4 leading characters are removed (more: outside bound).
func iTrimLeft(m *machine, fr *frame, args []value) value {
	s, sc := strArg(args[0])
	cs, cc := strArg(args[1])
	if !cc {
		panic(cut{"strings.TrimLeft with symbolic cutset"})
	}
	if sc {
		return strings.TrimLeft(s.S, cs.S)
	}
	for i := 0; i < len(cs.S); i++ {
		if cs.S[i] >= 0x80 {
			panic(cut{"strings.TrimLeft with non-ASCII cutset on symbolic string"})
		}
	}
	rem := s
	for n := 0; ; n++ {
		found := false
		for i := 0; i < len(cs.S); i++ {
			c := mkStr(cs.S[i : i+1])
			if m.truth(fromTerm(mkPrefixOf(c, rem))) {
				rem, _ = m.cutPrefix(rem, c)
				found = true
				break
			}
		}
		if !found {
			return fromTerm(rem)
		}
		if n >= 4 {
			panic(cut{"strings.TrimLeft removes more than 4 characters (outside bound)"})
		}
	}
}

// ParseInt: base 10 like Atoi (with the bit size's range); base 0 for the
// prefixed and leading-zero forms yields an uninterpreted value (a native
// replay decides what it really is); underscores are outside the bound.
var (
	piPlainDec = newDual(`[+-]?(?:0|[1-9][0-9]*)`)
	piPrefixed = newDual(`[+-]?(?:0[0-7]+|0[xX][0-9a-fA-F]+|0[bB][01]+|0[oO][0-7]+)`)
	piUnder    = newDual(`[^_]*`)
)

func iParseInt(m *machine, fr *frame, args []value) value {
	s, sc := strArg(args[0])
	base, ok1 := args[1].(int64)
	bits, ok2 := args[2].(int64)
	if !ok1 || !ok2 {
		panic(cut{"strconv.ParseInt with symbolic base or bit size"})
	}
	if sc {
		v, err := strconv.ParseInt(s.S, int(base), int(bits))
		if err != nil {
			ne, _ := err.(*strconv.NumError)
			return tuple{v, m.numError("ParseInt", s.S, ne != nil && ne.Err == strconv.ErrRange)}
		}
		return tuple{v, iface{}}
	}
	if bits != 0 && bits != 64 {
		panic(cut{"strconv.ParseInt with a bit size other than 0 or 64 on a symbolic string"})
	}
	switch base {
	case 10:
		return m.atoi(s)
	case 0:
		if !m.branch(mkInRe(s, piUnder.smt)) {
			panic(cut{"strconv.ParseInt base 0 with underscores (outside bound)"})
		}
		if m.branch(mkInRe(s, piPlainDec.smt)) {
			return m.atoi(s)
		}
		if m.branch(mkInRe(s, piPrefixed.smt)) {
			if m.branch(mkCmp("<=", mkLen(s), mkInt(12))) {
				v := rawApp("pi0_val", SInt, s)
				v.rng, v.lo, v.hi = true, -1<<63, 1<<63-1
				return tuple{v, iface{}}
			}
			panic(cut{"strconv.ParseInt base 0 with a prefixed numeral of more than 12 characters (outside bound)"})
		}
		return tuple{int64(0), m.numError("ParseInt", fromTerm(s), false)}
	}
	panic(cut{fmt.Sprintf("strconv.ParseInt with base %d on a symbolic string", base)})
}

func iParseBool(m *machine, fr *frame, args []value) value {
	s, sc := strArg(args[0])
	if sc {
		b, err := strconv.ParseBool(s.S)
		if err != nil {
			return tuple{false, m.numError("ParseBool", s.S, false)}
		}
		return tuple{b, iface{}}
	}
	for _, t := range []string{"1", "t", "T", "TRUE", "true", "True"} {
		if m.branch(mkStrEq(s, mkStr(t))) {
			return tuple{true, iface{}}
		}
	}
	for _, f := range []string{"0", "f", "F", "FALSE", "false", "False"} {
		if m.branch(mkStrEq(s, mkStr(f))) {
			return tuple{false, iface{}}
		}
	}
	return tuple{false, m.numError("ParseBool", fromTerm(s), false)}
}

// iCount: strings.Count for a concrete needle over a concatenation whose
// symbolic parts cannot contain the needle's first byte (every occurrence then
// starts inside a constant part and is decided there, forking where it runs
// into a symbolic part).
func iCount(m *machine, fr *frame, args []value) value {
	s, sc := strArg(args[0])
	nd, nc := strArg(args[1])
	if !nc {
		panic(cut{"strings.Count with symbolic needle"})
	}
	needle := nd.S
	if sc {
		return int64(strings.Count(s.S, needle))
	}
	if needle == "" {
		panic(cut{"strings.Count with empty needle on symbolic string"})
	}
	for k := 1; k < len(needle); k++ {
		if strings.HasSuffix(needle, needle[:k]) {
			panic(cut{"strings.Count with a self-overlapping needle on symbolic string"})
		}
	}
	parts := concatParts(s)
	for _, p := range parts {
		if p.Op != "cs" && !m.cannotContain(p, needle[0]) {
			if m.branch(mkContains(p, mkStr(needle[:1]))) {
				panic(cut{"strings.Count: a symbolic part may contain the first byte of the needle (outside bound)"})
			}
		}
	}
	count := int64(0)
	for i, p := range parts {
		if p.Op != "cs" {
			continue
		}
		for off := 0; off < len(p.S); off++ {
			if p.S[off] != needle[0] {
				continue
			}
			tail := mkConcat(append([]*Term{mkStr(p.S[off:])}, parts[i+1:]...)...)
			if m.truth(fromTerm(mkPrefixOf(nd, tail))) {
				count++
			}
		}
	}
	return count
}

// stripPrefix: if s = p ++ r syntactically, return r.
func stripPrefixSyn(s, p *Term) (*Term, bool) {
	if p.Op == "cs" {
		cp := constPrefix(s)
		if len(cp) >= len(p.S) && strings.HasPrefix(cp, p.S) {
			parts := append([]*Term{}, concatParts(s)...)
			parts[0] = mkStr(cp[len(p.S):])
			return mkConcat(parts...), true
		}
		return nil, false
	}
	ps, ss := concatParts(p), concatParts(s)
	if len(ps) <= len(ss) {
		for i := range ps {
			if ps[i].key != ss[i].key {
				return nil, false
			}
		}
		return mkConcat(ss[len(ps):]...), true
	}
	return nil, false
}

func (m *machine) cutPrefix(s, p *Term) (*Term, bool) {
	if r, ok := stripPrefixSyn(s, p); ok {
		return r, true
	}
	if !m.branch(mkPrefixOf(p, s)) {
		return s, false
	}
	mk := "cutp:" + p.key + ":" + s.key
	if r, ok := m.memo[mk]; ok {
		return r.(*Term), true
	}
	r := m.freshStr("tp")
	m.assume(mkStrEq(s, mkConcat(p, r)))
	m.noteFold(mkConcat(p, r), s)
	m.memo[mk] = r
	return r, true
}

func iTrimPrefix(m *machine, fr *frame, args []value) value {
	s, _ := strArg(args[0])
	p, _ := strArg(args[1])
	r, _ := m.cutPrefix(s, p)
	return fromTerm(r)
}

func iTrimSuffix(m *machine, fr *frame, args []value) value {
	s, sc := strArg(args[0])
	p, pc := strArg(args[1])
	if sc && pc {
		return strings.TrimSuffix(s.S, p.S)
	}
	if !m.branch(mkSuffixOf(p, s)) {
		return fromTerm(s)
	}
	r := m.freshStr("ts")
	m.assume(mkStrEq(s, mkConcat(r, p)))
	return fromTerm(r)
}

// splitFirst decomposes s at the first occurrence of the concrete separator
// sep (caller has established that s contains sep): s = x ++ sep ++ y with no
// occurrence of sep starting inside x ++ sep[:len-1].
func (m *machine) splitFirst(s *Term, sep string) (*Term, *Term) {
	if len(sep) == 1 {
		g2, g3 := m.splitAtFirstOf(s, []byte(sep))
		// the caller knows s contains sep, hence g3 starts with it
		rest, ok := stripPrefixSyn(g3, mkStr(sep))
		if ok {
			return g2, rest
		}
		y := m.freshStr("sp_r")
		m.assume(mkStrEq(g3, mkConcat(mkStr(sep), y)))
		return g2, y
	}
	// multi-character separator: first constant part containing it, provided no
	// earlier part can contain its first byte (no earlier or straddling match)
	{
		ps := concatParts(s)
		for i, p := range ps {
			if p.Op == "cs" {
				if idx := strings.Index(p.S, sep); idx >= 0 {
					left := mkConcat(append(append([]*Term{}, ps[:i]...), mkStr(p.S[:idx]))...)
					right := mkConcat(append([]*Term{mkStr(p.S[idx+len(sep):])}, ps[i+1:]...)...)
					return left, right
				}
			}
			if !m.cannotContain(p, sep[0]) {
				break
			}
		}
	}
	x := m.freshStr("sp_l")
	y := m.freshStr("sp_r")
	m.assume(mkStrEq(s, mkConcat(x, mkStr(sep), y)))
	m.assume(mkNot(mkContains(mkConcat(x, mkStr(sep[:len(sep)-1])), mkStr(sep))))
	return x, y
}

func iSplitN(m *machine, fr *frame, args []value) value {
	s, sc := strArg(args[0])
	sepT, sepc := strArg(args[1])
	n := asInt64(args[2])
	if !sepc {
		panic(cut{"strings.SplitN with symbolic separator"})
	}
	sep := sepT.S
	if sc {
		return strSlice(strings.SplitN(s.S, sep, int(n)))
	}
	if sep == "" {
		panic(cut{"strings.SplitN with empty separator on symbolic string"})
	}
	if n < 0 {
		return m.splitAll(s, sep)
	}
	if n == 0 {
		return []value(nil)
	}
	var parts []value
	rem := s
	for int64(len(parts)) < n-1 {
		if !m.truth(fromTerm(mkContains(rem, mkStr(sep)))) {
			break
		}
		x, y := m.splitFirst(rem, sep)
		parts = append(parts, fromTerm(x))
		rem = y
	}
	parts = append(parts, fromTerm(rem))
	return parts
}

func strSlice(ss []string) []value {
	if ss == nil {
		return nil
	}
	out := make([]value, len(ss))
	for i, s := range ss {
		out[i] = s
	}
	return out
}

func (m *machine) splitAll(s *Term, sep string) value {
	var parts []value
	rem := s
	for {
		if !m.truth(fromTerm(mkContains(rem, mkStr(sep)))) {
			break
		}
		if len(parts)+1 >= m.splitMax {
			panic(cut{fmt.Sprintf("strings.Split into more than %d parts (outside bound)", m.splitMax)})
		}
		x, y := m.splitFirst(rem, sep)
		parts = append(parts, fromTerm(x))
		rem = y
	}
	parts = append(parts, fromTerm(rem))
	return parts
}

func iSplit(m *machine, fr *frame, args []value) value {
	s, sc := strArg(args[0])
	sepT, sepc := strArg(args[1])
	if !sepc {
		panic(cut{"strings.Split with symbolic separator"})
	}
	if sc {
		return strSlice(strings.Split(s.S, sepT.S))
	}
	if sepT.S == "" {
		return m.explode(s)
	}
	return m.splitAll(s, sepT.S)
}

func iJoin(m *machine, fr *frame, args []value) value {
	elems := args[0].([]value)
	sep, _ := strArg(args[1])
	var parts []*Term
	for i, e := range elems {
		if i > 0 {
			parts = append(parts, sep)
		}
		t, _ := strArg(e)
		parts = append(parts, t)
	}
	return fromTerm(mkConcat(parts...))
}

func iRepeat(m *machine, fr *frame, args []value) value {
	s, _ := strArg(args[0])
	n, ok := args[1].(int64)
	if !ok {
		panic(cut{"strings.Repeat with symbolic count"})
	}
	if n < 0 {
		panic(targetPanic{iface{t: types.Typ[types.String], v: "strings: negative Repeat count"}})
	}
	if n > 4096 && !(s.Op == "cs" && int64(len(s.S))*n <= 1<<20) {
		panic(cut{"strings.Repeat count too large"})
	}
	if s.Op == "cs" {
		return strings.Repeat(s.S, int(n))
	}
	var parts []*Term
	for i := int64(0); i < n; i++ {
		parts = append(parts, s)
	}
	return fromTerm(mkConcat(parts...))
}

func iReplaceAll(m *machine, fr *frame, args []value) value {
	s, sc := strArg(args[0])
	o, oc := strArg(args[1])
	n, nc := strArg(args[2])
	if sc && oc && nc {
		return strings.ReplaceAll(s.S, o.S, n.S)
	}
	if !oc || o.S == "" {
		panic(cut{"strings.ReplaceAll with symbolic or empty pattern"})
	}
	// piecewise: concrete pieces are rewritten natively, symbolic pieces must not
	// contain the pattern (fork; the other side is outside the bound).
	if len(o.S) == 1 {
		var out []*Term
		for _, p := range concatParts(s) {
			if p.Op == "cs" {
				if nc {
					out = append(out, mkStr(strings.ReplaceAll(p.S, o.S, n.S)))
					continue
				}
				pieces := strings.Split(p.S, o.S)
				for i, pc := range pieces {
					if i > 0 {
						out = append(out, n)
					}
					out = append(out, mkStr(pc))
				}
				continue
			}
			if m.truth(fromTerm(mkContains(p, o))) {
				panic(cut{"strings.ReplaceAll on a symbolic string that contains the pattern (outside bound)"})
			}
			out = append(out, p)
		}
		return fromTerm(mkConcat(out...))
	}
	if m.truth(fromTerm(mkContains(s, o))) {
		panic(cut{"strings.ReplaceAll on a symbolic string that contains the pattern (outside bound)"})
	}
	return fromTerm(s)
}

func iToLower(m *machine, fr *frame, args []value) value {
	s, sc := strArg(args[0])
	if sc {
		return strings.ToLower(s.S)
	}
	return rawApp("go.tolower", SStr, s)
}

// ---------- strconv ----------

var (
	reDigit  = reRange('0', '9')
	reDigits = rePlus(reDigit)
	reSign   = reUnion(reLit("+"), reLit("-"))
	reIntSyn = reConcat(reOpt(reSign), reDigits)
)

// numError builds a real *strconv.NumError{Func, Num, Err} whose Err is the
// package's ErrSyntax or ErrRange value (so errors.Is works on it).
func (m *machine) numError(fn string, num value, rangeErr bool) iface {
	p := m.w.prog.ImportedPackage("strconv")
	name := "ErrSyntax"
	if rangeErr {
		name = "ErrRange"
	}
	g, ok := p.Members[name].(*ssa.Global)
	if !ok {
		return m.stdError("strconv", "NumError", "strconv."+fn+": parsing: "+name)
	}
	sentinel := *m.globalAddr(g)
	t, ptr := m.newStruct("strconv", "NumError", fn, num, sentinel)
	return iface{t: t, v: ptr}
}

func (m *machine) stdError(pkg, typ, msg string) iface {
	// an error value of a standard-library type the engine does not look into
	p := m.w.prog.ImportedPackage(pkg)
	var t types.Type = types.Typ[types.Int]
	if p != nil {
		if ty := p.Type(typ); ty != nil {
			t = types.NewPointer(ty.Type())
		}
	}
	return iface{t: t, v: &opaque{kind: "error", data: msg}}
}

// nonNegative: the integer term is known (range or path condition) to be >= 0
// and within int64.
func (m *machine) nonNegative(x *Term) bool {
	if x.rng && x.lo >= 0 {
		return true
	}
	if x.Op == "-" && len(x.Args) == 1 {
		// -(y) with y < 0 on the path
		if m.known[mkCmp("<", x.Args[0], mkInt(0)).key] {
			return true
		}
	}
	return m.known[mkNot(mkCmp("<", x, mkInt(0))).key] || m.known[mkCmp(">=", x, mkInt(0)).key]
}

// cannotContain: the string term certainly does not contain byte c.
func (m *machine) cannotContain(t *Term, c byte) bool {
	switch t.Op {
	case "cs":
		return strings.IndexByte(t.S, c) < 0
	case "str.from_int":
		return c < '0' || c > '9'
	case "str.++":
		for _, p := range t.Args {
			if !m.cannotContain(p, c) {
				return false
			}
		}
		return true
	}
	return m.known[mkNot(mkContains(t, mkStr(string([]byte{c})))).key]
}

// re19 builds a regex for the 19-digit strings that are <= bound (le) or > bound.
func re19(bound string, le bool) *Term {
	n := len(bound)
	var alts []*Term
	for i := 0; i < n; i++ {
		var cls *Term
		if le {
			if bound[i] == '0' {
				continue
			}
			cls = reRange('0', bound[i]-1)
		} else {
			if bound[i] == '9' {
				continue
			}
			cls = reRange(bound[i]+1, '9')
		}
		var seq []*Term
		if i > 0 {
			seq = append(seq, reLit(bound[:i]))
		}
		seq = append(seq, cls)
		for j := i + 1; j < n; j++ {
			seq = append(seq, reDigit)
		}
		alts = append(alts, reConcat(seq...))
	}
	if le {
		alts = append(alts, reLit(bound))
	}
	return reUnion(alts...)
}

var (
	rePosLe = re19("9223372036854775807", true)
	rePosGt = re19("9223372036854775807", false)
	reNegLe = re19("9223372036854775808", true)
	reNegGt = re19("9223372036854775808", false)
	reZeros = reStar(reLit("0"))
)

// inInt64Range decides whether the digit string d (known to match [0-9]+)
// denotes a magnitude within int64 (negative side when neg).
func (m *machine) inInt64Range(d *Term, neg bool) bool {
	if d.Op == "str.from_int" {
		return true // canonical numeral of an int64 quantity
	}
	if m.digitsMax > 0 {
		// bound of this harness: numerals of at most digitsMax digits
		if m.branch(mkCmp("<=", mkLen(d), mkInt(int64(m.digitsMax)))) {
			return true
		}
		panic(cut{fmt.Sprintf("numeral of more than %d digits (outside bound)", m.digitsMax)})
	}
	z := m.freshStr("zeros")
	e := m.freshStr("sig")
	m.assume(mkStrEq(d, mkConcat(z, e)))
	m.assume(mkInRe(z, reZeros))
	m.assume(mkNot(mkPrefixOf(mkStr("0"), e)))
	if m.branch(mkCmp("<=", mkLen(e), mkInt(18))) {
		return true
	}
	if m.branch(mkCmp(">=", mkLen(e), mkInt(20))) {
		return false
	}
	if neg {
		return m.branchNeg(mkInRe(e, reNegLe), mkInRe(e, reNegGt))
	}
	return m.branchNeg(mkInRe(e, rePosLe), mkInRe(e, rePosGt))
}

func iAtoi(m *machine, fr *frame, args []value) value {
	s, sc := strArg(args[0])
	if sc {
		v, err := strconv.Atoi(s.S)
		if err != nil {
			ne, _ := err.(*strconv.NumError)
			return tuple{int64(v), m.numError("Atoi", s.S, ne != nil && ne.Err == strconv.ErrRange)}
		}
		return tuple{int64(v), iface{}}
	}
	if r, ok := m.memo["atoi:"+s.key]; ok {
		return r
	}
	r := m.atoi(s)
	m.memo["atoi:"+s.key] = r
	return r
}

func (m *machine) atoi(s *Term) value {
	// canonical numerals produced by Itoa of an int64 quantity
	if s.Op == "str.from_int" && m.nonNegative(s.Args[0]) {
		return tuple{fromTerm(s.Args[0]), iface{}}
	}
	if ps := concatParts(s); len(ps) == 2 && ps[0].Op == "cs" && ps[0].S == "-" && ps[1].Op == "str.from_int" && m.nonNegative(ps[1].Args[0]) {
		x := ps[1].Args[0]
		if x.Op == "-" && len(x.Args) == 1 {
			return tuple{fromTerm(x.Args[0]), iface{}}
		}
		return tuple{fromTerm(mkNeg(x)), iface{}}
	}
	if !m.branch(mkInRe(s, reIntSyn)) {
		return tuple{int64(0), m.numError("Atoi", fromTerm(s), false)}
	}
	errV := func() iface { return m.numError("Atoi", fromTerm(s), true) }
	var val *Term
	if m.branch(mkPrefixOf(mkStr("-"), s)) {
		d, _ := m.cutPrefix(s, mkStr("-"))
		if !m.inInt64Range(d, true) {
			return tuple{int64(-1 << 63), errV()}
		}
		val = mkNeg(mkStrToInt(d))
	} else {
		d := s
		if m.branch(mkPrefixOf(mkStr("+"), s)) {
			d, _ = m.cutPrefix(s, mkStr("+"))
		}
		if !m.inInt64Range(d, false) {
			return tuple{int64(1<<63 - 1), errV()}
		}
		val = mkStrToInt(d)
	}
	r := &Term{Op: val.Op, Args: val.Args, Sort: SInt, key: val.key, rng: true, lo: -1 << 63, hi: 1<<63 - 1}
	return tuple{r, iface{}}
}

// ParseFloat model. For texts without the characters _ x X p P (hexadecimal
// and underscore forms) the accepted syntax is exactly pfValid; texts in
// pfBounded are also in range. Everything else is outside the bound.
var (
	pfSpecial = `[+-]?[iI][nN][fF](?:[iI][nN][iI][tT][yY])?|[nN][aA][nN]`
	pfValid   = newDual(`[+-]?(?:[0-9]+(?:\.[0-9]*)?|\.[0-9]+)(?:[eE][+-]?[0-9]+)?|` + pfSpecial)
	pfBounded = newDual(`[+-]?(?:[0-9]{1,20}(?:\.[0-9]{0,20})?|\.[0-9]{1,20})(?:[eE][+-]?[0-9]{1,2})?|` + pfSpecial)
	pfPlain   = newDual(`[^_xXpP]*`)
)

// pfSelfTest compares the model with strconv.ParseFloat on all short strings.
func pfSelfTest(n int) (int, string) {
	alpha := "019.eE+-xp_infaty"
	count := 0
	var rec func(cur []byte, d int) string
	rec = func(cur []byte, d int) string {
		s := string(cur)
		count++
		_, err := strconv.ParseFloat(s, 64)
		switch {
		case pfBounded.re.MatchString(s):
			if err != nil {
				return fmt.Sprintf("%q is in the bounded float syntax but ParseFloat fails: %v", s, err)
			}
		case pfPlain.re.MatchString(s) && !pfValid.re.MatchString(s):
			if err == nil {
				return fmt.Sprintf("%q is outside the float syntax but ParseFloat accepts it", s)
			}
		}
		if d == 0 {
			return ""
		}
		for i := 0; i < len(alpha); i++ {
			if r := rec(append(cur, alpha[i]), d-1); r != "" {
				return r
			}
		}
		return ""
	}
	return count, rec(nil, n)
}

// 32-bit ParseFloat on the family "DeNN" (one digit, 'e', one or two digits,
// optional sign): exactly which members overflow float32.
var (
	pf32Family = newDual(`[+-]?[0-9]e[0-9]{1,2}`)
	pf32InRng  = newDual(`[+-]?(?:[0-9]e(?:[0-2]?[0-9]|3[0-7])|[0-3]e38|0e[0-9]{1,2})`)
	pf32Safe   = newDual(`[+-]?(?:[0-9]{1,20}(?:\.[0-9]{0,20})?|\.[0-9]{1,20})(?:[eE][+-]?(?:[0-9]|1[0-7]))?|` + pfSpecial)
)

func pf32SelfTest() string {
	for _, sign := range []string{"", "+", "-"} {
		for d := 0; d <= 9; d++ {
			for e := 0; e <= 99; e++ {
				for _, ef := range []string{"%d", "%02d"} {
					s := fmt.Sprintf("%s%de"+ef, sign, d, e)
					_, err := strconv.ParseFloat(s, 32)
					if (err == nil) != pf32InRng.re.MatchString(s) {
						return fmt.Sprintf("%q: ParseFloat(32) err=%v, model in-range=%v", s, err, pf32InRng.re.MatchString(s))
					}
				}
			}
		}
	}
	return ""
}

func iParseFloat(m *machine, fr *frame, args []value) value {
	s, sc := strArg(args[0])
	bits := asInt64(args[1])
	if sc {
		v, err := strconv.ParseFloat(s.S, int(bits))
		if err != nil {
			ne, _ := err.(*strconv.NumError)
			return tuple{v, m.numError("ParseFloat", s.S, ne != nil && ne.Err == strconv.ErrRange)}
		}
		return tuple{v, iface{}}
	}
	mk := fmt.Sprintf("pf%d:%s", bits, s.key)
	if r, ok := m.memo[mk]; ok {
		return r
	}
	var r value
	valFn := "pf_val"
	bounded := pfBounded
	if bits == 32 {
		valFn, bounded = "pf32_val", pf32Safe
		if m.branch(mkInRe(s, pf32Family.smt)) {
			if m.branch(mkInRe(s, pf32InRng.smt)) {
				r = tuple{rawApp(valFn, SF64, s), iface{}}
			} else {
				r = tuple{float64(0), m.numError("ParseFloat", fromTerm(s), true)}
			}
			m.memo[mk] = r
			return r
		}
	} else if bits != 64 {
		panic(cut{"ParseFloat with bit size other than 32 or 64"})
	}
	if m.branch(mkInRe(s, bounded.smt)) {
		r = tuple{rawApp(valFn, SF64, s), iface{}}
	} else if m.branch(mkAnd(mkInRe(s, pfPlain.smt), mkNot(mkInRe(s, pfValid.smt)))) {
		r = tuple{float64(0), m.numError("ParseFloat", fromTerm(s), false)}
	} else {
		panic(cut{"float text in hexadecimal/underscore form or with more than 20 digits / 2 exponent digits (outside bound)"})
	}
	m.memo[mk] = r
	return r
}

func itoaTerm(i *Term) *Term {
	if i.Op == "ci" {
		return mkStr(strconv.FormatInt(i.I, 10))
	}
	if i.rng && i.lo >= 0 {
		return mkStrFromInt(i)
	}
	return mkIte(mkCmp("<", i, mkInt(0)), mkConcat(mkStr("-"), mkStrFromInt(mkNeg(i))), mkStrFromInt(i))
}

func iItoa(m *machine, fr *frame, args []value) value {
	i := toTerm(args[0])
	if i.Op != "ci" && !(i.rng && i.lo >= 0) {
		// fork on the sign so that the result is a plain concatenation
		if m.branch(mkCmp("<", i, mkInt(0))) {
			return fromTerm(mkConcat(mkStr("-"), mkStrFromInt(mkNeg(i))))
		}
		return fromTerm(mkStrFromInt(i))
	}
	return fromTerm(itoaTerm(i))
}

// ---------- os ----------

func iGetenv(m *machine, fr *frame, args []value) value {
	k := concreteStr(args[0], "os.Getenv key")
	m.envRead[k] = true
	if v, ok := m.env[k]; ok {
		return v
	}
	return ""
}

// ---------- errors ----------

func (m *machine) newStruct(pkg, typ string, fields ...value) (types.Type, *value) {
	p := m.w.prog.ImportedPackage(pkg)
	if p == nil {
		panic(cut{"package " + pkg + " not loaded"})
	}
	ty := p.Type(typ)
	if ty == nil {
		panic(cut{"type " + pkg + "." + typ + " not found"})
	}
	st := zero(ty.Type()).(structure)
	for i, f := range fields {
		st[i] = f
	}
	cell := value(st)
	return types.NewPointer(ty.Type()), &cell
}

func (m *machine) errorsNew(msg value) iface {
	t, p := m.newStruct("errors", "errorString", msg)
	return iface{t: t, v: p}
}

func iErrorsNew(m *machine, fr *frame, args []value) value {
	return m.errorsNew(args[0])
}

func (m *machine) unwrapOnce(fr *frame, e iface) []iface {
	if e.t == nil {
		return nil
	}
	if _, ok := e.v.(*opaque); ok {
		return nil
	}
	ms := m.w.prog.MethodSets.MethodSet(e.t)
	for i := 0; i < ms.Len(); i++ {
		sel := ms.At(i)
		if sel.Obj().Name() != "Unwrap" {
			continue
		}
		f := m.w.prog.MethodValue(sel)
		if f == nil {
			continue
		}
		res := m.call(fr, 0, f, []value{e.v})
		switch r := res.(type) {
		case iface:
			if r.t == nil {
				return nil
			}
			return []iface{r}
		case []value:
			var out []iface
			for _, x := range r {
				out = append(out, x.(iface))
			}
			return out
		}
	}
	return nil
}

func (m *machine) errorsIs(fr *frame, err, target iface) bool {
	if err.t == nil || target.t == nil {
		return err.t == nil && target.t == nil
	}
	for {
		if sameType(err.t, target.t) {
			if r, ok := equals(err.t, err.v, target.v).(bool); ok && r {
				return true
			}
		}
		next := m.unwrapOnce(fr, err)
		switch len(next) {
		case 0:
			return false
		case 1:
			err = next[0]
		default:
			for _, n := range next {
				if m.errorsIs(fr, n, target) {
					return true
				}
			}
			return false
		}
	}
}

func iErrorsIs(m *machine, fr *frame, args []value) value {
	return m.errorsIs(fr, args[0].(iface), args[1].(iface))
}

func iErrorsAs(m *machine, fr *frame, args []value) value {
	err := args[0].(iface)
	tgt := args[1].(iface)
	if tgt.t == nil {
		panic(targetPanic{iface{t: types.Typ[types.String], v: "errors: target cannot be nil"}})
	}
	pt, ok := tgt.t.Underlying().(*types.Pointer)
	if !ok {
		panic(targetPanic{iface{t: types.Typ[types.String], v: "errors: target must be a non-nil pointer"}})
	}
	want := pt.Elem()
	var rec func(e iface) bool
	rec = func(e iface) bool {
		for e.t != nil {
			if _, isI := want.Underlying().(*types.Interface); isI {
				if types.Implements(e.t, want.Underlying().(*types.Interface)) {
					*(tgt.v.(*value)) = e
					return true
				}
			} else if types.Identical(e.t, want) {
				*(tgt.v.(*value)) = e.v
				return true
			}
			next := m.unwrapOnce(fr, e)
			if len(next) == 0 {
				return false
			}
			if len(next) == 1 {
				e = next[0]
				continue
			}
			for _, n := range next {
				if rec(n) {
					return true
				}
			}
			return false
		}
		return false
	}
	return rec(err)
}

// ---------- sort ----------

func (m *machine) strLess(a, b value) bool {
	as, aok := a.(string)
	bs, bok := b.(string)
	if aok && bok {
		return as < bs
	}
	at, _ := strArg(a)
	bt, _ := strArg(b)
	return m.branch(rawApp("str.<", SBool, at, bt))
}

func iSortStrings(m *machine, fr *frame, args []value) value {
	x := args[0].([]value)
	allc := true
	for _, e := range x {
		if _, ok := e.(string); !ok {
			allc = false
		}
	}
	if allc {
		sort.Slice(x, func(i, j int) bool { return x[i].(string) < x[j].(string) })
		return nil
	}
	// symbolic elements: the resulting order is left unspecified (the given
	// order is kept). Deciding it needs str.< over word equations, on which all
	// three solvers time out; harnesses that reach this only assert
	// order-insensitive facts (e.g. "the message lists every candidate").
	m.assumptions["sort.Strings on symbolic strings: resulting order unspecified (only order-insensitive assertions depend on it)"] = true
	return nil
}

func iSortSlice(m *machine, fr *frame, args []value) value {
	sl, ok := args[0].(iface).v.([]value)
	if !ok {
		panic(cut{"sort.Slice on unsupported value"})
	}
	less := args[1]
	for i := 1; i < len(sl); i++ {
		for j := i; j > 0; j-- {
			r := m.call(fr, 0, less, []value{int64(j), int64(j - 1)})
			if !m.truth(r) {
				break
			}
			sl[j], sl[j-1] = sl[j-1], sl[j]
		}
	}
	return nil
}

// ---------- misc helpers ----------

func funcPkgPath(fn *ssa.Function) string {
	if fn.Pkg != nil {
		return fn.Pkg.Pkg.Path()
	}
	return ""
}

package main

// Native replay: the same harness compiled with the real toolchain against the
// untouched repository sources (go test -c -overlay), run on solver models.

import (
	"bufio"
	"encoding/json"
	"fmt"
	"os"
	"os/exec"
	"path/filepath"
	"strings"
	"time"
)

type nativeCase struct {
	ID       int                 `json:"id"`
	Entry    string              `json:"entry"`
	Vars     map[string]modelVal `json:"vars"`
	Thorough bool                `json:"thorough"`
	Sched    []int64             `json:"sched,omitempty"`
}

type nativeAssert struct {
	ID string `json:"id"`
	OK bool   `json:"ok"`
}

type nativeResult struct {
	ID      int            `json:"id"`
	Entry   string         `json:"entry"`
	Asserts []nativeAssert `json:"asserts"`
	Obs     [][2]string    `json:"obs"`
	Reach   []string       `json:"reach"`
	End     string         `json:"end"`
	Panic   string         `json:"panic"`
	Phase   string         `json:"phase"`
}

type nativeBuild struct {
	bins map[string]string // package name -> test binary
	err  error
	secs float64
}

func goEnv() []string {
	return append(os.Environ(), "GOFLAGS=-mod=mod", "GOPROXY=off", "GOSUMDB=off", "GOTOOLCHAIN=local")
}

// buildNative compiles the replay test binaries for the given packages.
func buildNative(repo, workDir string, hf *harnessFiles, pkgs []string) *nativeBuild {
	t0 := time.Now()
	nb := &nativeBuild{bins: map[string]string{}}
	ov := struct {
		Replace map[string]string
	}{Replace: hf.overlay}
	data, _ := json.Marshal(ov)
	ovPath := filepath.Join(workDir, "overlay.json")
	if err := os.WriteFile(ovPath, data, 0o644); err != nil {
		nb.err = err
		return nb
	}
	for _, p := range pkgs {
		dir := repo
		if p == "dag" {
			dir = filepath.Join(repo, "dag")
		}
		bin := filepath.Join(workDir, "replay_"+p+".test")
		cmd := exec.Command("go", "test", "-c", "-vet=off", "-tags", "verif", "-overlay", ovPath, "-o", bin, ".")
		cmd.Dir = dir
		cmd.Env = goEnv()
		out, err := cmd.CombinedOutput()
		if err != nil {
			nb.err = fmt.Errorf("building the native replay binary for %s failed: %v\n%s", p, err, out)
			return nb
		}
		nb.bins[p] = bin
	}
	nb.secs = time.Since(t0).Seconds()
	return nb
}

// runNative executes the cases in order; a hang costs one restart.
func runNative(bin, workDir, tag string, cases []nativeCase) (map[int]nativeResult, error) {
	results := map[int]nativeResult{}
	rest := cases
	round := 0
	for len(rest) > 0 {
		round++
		in := filepath.Join(workDir, fmt.Sprintf("cases_%s_%d.jsonl", tag, round))
		out := filepath.Join(workDir, fmt.Sprintf("results_%s_%d.jsonl", tag, round))
		f, err := os.Create(in)
		if err != nil {
			return results, err
		}
		w := bufio.NewWriter(f)
		enc := json.NewEncoder(w)
		for _, c := range rest {
			enc.Encode(c)
		}
		w.Flush()
		f.Close()
		os.Remove(out)
		cmd := exec.Command(bin, "-test.run", "^TestVerifReplay$", "-test.timeout", "30m")
		cmd.Env = append(os.Environ(), "VERIF_CASES="+in, "VERIF_RESULTS="+out)
		cmd.Dir = workDir
		outb, runErr := cmd.CombinedOutput()
		got := 0
		lastEnd := ""
		if rf, err := os.Open(out); err == nil {
			sc := bufio.NewScanner(rf)
			sc.Buffer(make([]byte, 1<<20), 1<<26)
			for sc.Scan() {
				var r nativeResult
				if json.Unmarshal(sc.Bytes(), &r) == nil {
					results[r.ID] = r
					got++
					lastEnd = r.End
				}
			}
			rf.Close()
		}
		if got >= len(rest) {
			break
		}
		if runErr == nil {
			break
		}
		// the process ended abnormally while running the case after the last one that
		// produced a record: an unrecovered panic in another goroutine (or a fatal
		// runtime error) - recorded as a panic of that case
		if lastEnd == "hang" {
			// the harness reported a hang and left on purpose: go on with the next case
			rest = rest[got:]
			continue
		}
		killer := rest[got]
		results[killer.ID] = nativeResult{ID: killer.ID, Entry: killer.Entry, End: "panic", Phase: "run",
			Panic: "the process ended abnormally (" + runErr.Error() + "): " + truncate(lastLines(string(outb), 12), 1500)}
		rest = rest[got+1:]
		if round > len(cases)+2 {
			return results, fmt.Errorf("native replay process failed repeatedly: %v\n%s", runErr, truncate(string(outb), 4000))
		}
	}
	return results, nil
}

// compareNative checks a native result against what the symbolic run predicts.
func compareNative(ex *nativeExpect, r nativeResult, loose bool) []string {
	var diffs []string
	if loose {
		// schedule-dependent harness (dag): the native run follows the recorded
		// delivery order only approximately; compare what cannot depend on it
		if r.End != "return" && ex.End == "return" {
			diffs = append(diffs, fmt.Sprintf("end: symbolic %s, native %s (%s)", ex.End, r.End, r.Panic))
		}
		for _, a := range r.Asserts {
			if !a.OK {
				diffs = append(diffs, "ASSERT-FAILS-NATIVELY "+a.ID)
			}
		}
		return diffs
	}
	wantEnd := map[string]string{"return": "return", "exit": "exit", "define-panic": "panic", "run-panic": "panic"}[ex.End]
	if r.End != wantEnd {
		diffs = append(diffs, fmt.Sprintf("end: symbolic %s, native %s (%s)", ex.End, r.End, r.Panic))
	}
	if ex.End == "define-panic" && r.Phase != "define" {
		diffs = append(diffs, "panic phase: symbolic define, native "+r.Phase)
	}
	na := map[string]bool{}
	for _, a := range r.Asserts {
		if prev, ok := na[a.ID]; ok {
			na[a.ID] = prev && a.OK
		} else {
			na[a.ID] = a.OK
		}
	}
	for id, want := range ex.Asserts {
		got, ok := na[id]
		if !ok {
			diffs = append(diffs, "assert "+id+" not evaluated natively")
			continue
		}
		if want && !got {
			diffs = append(diffs, "ASSERT-FAILS-NATIVELY "+id)
		}
	}
	if len(ex.Obs) != len(r.Obs) {
		diffs = append(diffs, fmt.Sprintf("observations: symbolic %d, native %d", len(ex.Obs), len(r.Obs)))
	} else {
		for i := range ex.Obs {
			if ex.Obs[i] != r.Obs[i] {
				diffs = append(diffs, fmt.Sprintf("observation %s: symbolic %s, native %s", ex.Obs[i][0], ex.Obs[i][1], r.Obs[i][1]))
			}
		}
	}
	if strings.Join(ex.Reach, ",") != strings.Join(r.Reach, ",") {
		diffs = append(diffs, fmt.Sprintf("reach: symbolic %v, native %v", ex.Reach, r.Reach))
	}
	return diffs
}

func lastLines(s string, n int) string {
	ls := strings.Split(strings.TrimRight(s, "\n"), "\n")
	// the panic message sits at the start of the goroutine dump: prefer lines from "panic:" on
	for i, l := range ls {
		if strings.HasPrefix(l, "panic:") || strings.HasPrefix(l, "fatal error:") {
			if i+n < len(ls) {
				return strings.Join(ls[i:i+n], "\n")
			}
			return strings.Join(ls[i:], "\n")
		}
	}
	if len(ls) > n {
		ls = ls[len(ls)-n:]
	}
	return strings.Join(ls, "\n")
}

package main

// Pure standard-library functions that are simply called natively when all
// their arguments are concrete (a symbolic argument is a counted cut).

import (
	"strconv"
	"strings"
	"unicode"
	"unicode/utf8"
)

func concreteOnly(name string, f func(args []value) value) intrinsic {
	return func(m *machine, fr *frame, args []value) value {
		for _, a := range args {
			if isSym(a) {
				panic(cut{"call to " + name + " with a symbolic argument is not modelled"})
			}
			if sl, ok := a.([]value); ok {
				for _, e := range sl {
					if isSym(e) {
						panic(cut{"call to " + name + " with a symbolic argument is not modelled"})
					}
				}
			}
		}
		return f(args)
	}
}

func strs(v value) []string {
	sl, _ := v.([]value)
	out := make([]string, len(sl))
	for i, e := range sl {
		out[i] = e.(string)
	}
	return out
}

func init() {
	reg := func(name string, f func(args []value) value) {
		if _, exists := intrinsics[name]; !exists {
			intrinsics[name] = concreteOnly(name, f)
		}
	}
	s := func(v value) string { return v.(string) }
	i := func(v value) int64 { return v.(int64) }
	reg("unicode/utf8.RuneCountInString", func(a []value) value { return int64(utf8.RuneCountInString(s(a[0]))) })
	reg("unicode/utf8.ValidString", func(a []value) value { return utf8.ValidString(s(a[0])) })
	reg("unicode/utf8.RuneLen", func(a []value) value { return int64(utf8.RuneLen(rune(i(a[0])))) })
	reg("strings.ToUpper", func(a []value) value { return strings.ToUpper(s(a[0])) })
	reg("strings.TrimSpace", func(a []value) value { return strings.TrimSpace(s(a[0])) })
	reg("strings.TrimRight", func(a []value) value { return strings.TrimRight(s(a[0]), s(a[1])) })
	reg("strings.Trim", func(a []value) value { return strings.Trim(s(a[0]), s(a[1])) })
	reg("strings.Fields", func(a []value) value { return strSlice(strings.Fields(s(a[0]))) })
	reg("strings.IndexAny", func(a []value) value { return int64(strings.IndexAny(s(a[0]), s(a[1]))) })
	reg("strings.ContainsAny", func(a []value) value { return strings.ContainsAny(s(a[0]), s(a[1])) })
	reg("strings.Replace", func(a []value) value { return strings.Replace(s(a[0]), s(a[1]), s(a[2]), int(i(a[3]))) })
	reg("strings.SplitAfter", func(a []value) value { return strSlice(strings.SplitAfter(s(a[0]), s(a[1]))) })
	reg("strings.Title", func(a []value) value { return strings.Title(s(a[0])) })
	reg("strings.Compare", func(a []value) value { return int64(strings.Compare(s(a[0]), s(a[1]))) })
	reg("strconv.Quote", func(a []value) value { return strconv.Quote(s(a[0])) })
	reg("strconv.FormatInt", func(a []value) value { return strconv.FormatInt(i(a[0]), int(i(a[1]))) })
	reg("strconv.FormatBool", func(a []value) value { return strconv.FormatBool(a[0].(bool)) })
	reg("unicode.IsUpper", func(a []value) value { return unicode.IsUpper(rune(i(a[0]))) })
	reg("unicode.IsLower", func(a []value) value { return unicode.IsLower(rune(i(a[0]))) })
	reg("unicode.IsDigit", func(a []value) value { return unicode.IsDigit(rune(i(a[0]))) })
	reg("unicode.IsLetter", func(a []value) value { return unicode.IsLetter(rune(i(a[0]))) })
	reg("unicode.IsSpace", func(a []value) value { return unicode.IsSpace(rune(i(a[0]))) })
	reg("unicode.ToUpper", func(a []value) value { return int64(unicode.ToUpper(rune(i(a[0])))) })
	reg("unicode.ToLower", func(a []value) value { return int64(unicode.ToLower(rune(i(a[0])))) })
	reg("sort.SearchStrings", func(a []value) value {
		x := strs(a[0])
		lo, hi := 0, len(x)
		for lo < hi {
			mid := (lo + hi) / 2
			if x[mid] < s(a[1]) {
				lo = mid + 1
			} else {
				hi = mid
			}
		}
		return int64(lo)
	})
}

// ---------- further symbolic models added for robustness against changed code ----------

func iCut(m *machine, fr *frame, args []value) value {
	s, sc := strArg(args[0])
	sepT, sepc := strArg(args[1])
	if !sepc {
		panic(cut{"strings.Cut with symbolic separator"})
	}
	if sc {
		a, b, ok := strings.Cut(s.S, sepT.S)
		return tuple{a, b, ok}
	}
	if sepT.S == "" {
		return tuple{"", fromTerm(s), true}
	}
	if !m.truth(fromTerm(mkContains(s, sepT))) {
		return tuple{fromTerm(s), "", false}
	}
	x, y := m.splitFirst(s, sepT.S)
	return tuple{fromTerm(x), fromTerm(y), true}
}

func iCutPrefix(m *machine, fr *frame, args []value) value {
	s, _ := strArg(args[0])
	p, _ := strArg(args[1])
	r, ok := m.cutPrefix(s, p)
	return tuple{fromTerm(r), ok}
}

func iCutSuffix(m *machine, fr *frame, args []value) value {
	s, sc := strArg(args[0])
	p, pc := strArg(args[1])
	if sc && pc {
		r, ok := strings.CutSuffix(s.S, p.S)
		return tuple{r, ok}
	}
	if !m.branch(mkSuffixOf(p, s)) {
		return tuple{fromTerm(s), false}
	}
	r := m.freshStr("ts")
	m.assume(mkStrEq(s, mkConcat(r, p)))
	return tuple{fromTerm(r), true}
}

func iLookupEnv(m *machine, fr *frame, args []value) value {
	k := concreteStr(args[0], "os.LookupEnv key")
	m.envRead[k] = true
	if v, ok := m.env[k]; ok {
		return tuple{v, true}
	}
	return tuple{"", false}
}

// strings.Builder shares the content-per-object model of bytes.Buffer.
func iBuilderWriteByte(m *machine, fr *frame, args []value) value {
	b := m.bufferOf(args[0].(*value))
	c, ok := args[1].(int64)
	if !ok {
		if u, ok2 := args[1].(uint8); ok2 {
			c, ok = int64(u), true
		}
	}
	if !ok {
		panic(cut{"WriteByte with a symbolic byte"})
	}
	*b = fromTerm(mkConcat(toTerm(*b), mkStr(string([]byte{byte(c)}))))
	return iface{}
}

func iBuilderWriteRune(m *machine, fr *frame, args []value) value {
	b := m.bufferOf(args[0].(*value))
	r, ok := args[1].(int64)
	if !ok {
		if u, ok2 := args[1].(int32); ok2 {
			r, ok = int64(u), true
		}
	}
	if !ok {
		panic(cut{"WriteRune with a symbolic rune"})
	}
	s := string(rune(r))
	*b = fromTerm(mkConcat(toTerm(*b), mkStr(s)))
	return tuple{int64(len(s)), iface{}}
}

func iBufferReset(m *machine, fr *frame, args []value) value {
	*m.bufferOf(args[0].(*value)) = ""
	return nil
}

func init() {
	add := func(name string, f intrinsic) {
		if _, exists := intrinsics[name]; !exists {
			intrinsics[name] = f
		}
	}
	add("strings.IndexByte", func(m *machine, fr *frame, args []value) value {
		return iIndex(m, fr, []value{args[0], string([]byte{byte(concreteInt(args[1], "strings.IndexByte byte"))})})
	})
	add("strings.IndexRune", func(m *machine, fr *frame, args []value) value {
		return iIndex(m, fr, []value{args[0], string(rune(concreteInt(args[1], "strings.IndexRune rune")))})
	})
	add("strings.ContainsRune", func(m *machine, fr *frame, args []value) value {
		needle := string(rune(concreteInt(args[1], "strings.ContainsRune rune")))
		s, sc := strArg(args[0])
		if sc {
			return strings.Contains(s.S, needle)
		}
		return fromTerm(mkContains(s, mkStr(needle)))
	})
	add("strings.Cut", iCut)
	add("strings.CutPrefix", iCutPrefix)
	add("strings.CutSuffix", iCutSuffix)
	add("os.LookupEnv", iLookupEnv)
	add("(*strings.Builder).WriteString", iBufferWriteString)
	add("(*strings.Builder).String", iBufferString)
	add("(*strings.Builder).Len", iBufferLen)
	add("(*strings.Builder).WriteByte", iBuilderWriteByte)
	add("(*strings.Builder).WriteRune", iBuilderWriteRune)
	add("(*strings.Builder).Reset", iBufferReset)
	add("(*strings.Builder).Grow", noop)
	add("(*bytes.Buffer).WriteByte", iBuilderWriteByte)
	add("(*bytes.Buffer).WriteRune", iBuilderWriteRune)
	add("(*bytes.Buffer).Reset", iBufferReset)
	add("(*bytes.Buffer).Grow", noop)
}

func concreteInt(v value, what string) int64 {
	switch x := v.(type) {
	case int64:
		return x
	case int32:
		return int64(x)
	case uint8:
		return int64(x)
	case int:
		return int64(x)
	case *Term:
		if x.Op == "ci" {
			return x.I
		}
	}
	panic(cut{what + " is symbolic"})
}

// bytesToTerm turns a []byte value with concrete elements into a string term.
func bytesToTerm(v value) *Term {
	sl, _ := v.([]value)
	b := make([]byte, len(sl))
	for i, e := range sl {
		c, ok := e.(int64)
		if !ok {
			panic(cut{"[]byte with symbolic bytes written to a writer"})
		}
		b[i] = byte(c)
	}
	return mkStr(string(b))
}

func bytesValue(s string) []value {
	b := make([]value, len(s))
	for i := 0; i < len(s); i++ {
		b[i] = int64(s[i])
	}
	return b
}

// (*bytes.Buffer).Next / Bytes / Write on the content-per-object model (concrete content).
func iBufferNext(m *machine, fr *frame, args []value) value {
	b := m.bufferOf(args[0].(*value))
	n := concreteInt(args[1], "bytes.Buffer.Next count")
	s, ok := (*b).(string)
	if !ok {
		panic(cut{"bytes.Buffer.Next on symbolic content"})
	}
	if n > int64(len(s)) {
		n = int64(len(s))
	}
	*b = s[n:]
	return bytesValue(s[:n])
}

func iBufferBytes(m *machine, fr *frame, args []value) value {
	b := m.bufferOf(args[0].(*value))
	s, ok := (*b).(string)
	if !ok {
		panic(cut{"bytes.Buffer.Bytes on symbolic content"})
	}
	return bytesValue(s)
}

func iBufferWrite(m *machine, fr *frame, args []value) value {
	b := m.bufferOf(args[0].(*value))
	t := bytesToTerm(args[1])
	*b = fromTerm(mkConcat(toTerm(*b), t))
	return tuple{fromTerm(mkLen(t)), iface{}}
}

func init() {
	for name, f := range map[string]intrinsic{
		"(*bytes.Buffer).Next":     iBufferNext,
		"(*bytes.Buffer).Bytes":    iBufferBytes,
		"(*bytes.Buffer).Write":    iBufferWrite,
		"(*strings.Builder).Write": iBufferWrite,
	} {
		if _, exists := intrinsics[name]; !exists {
			intrinsics[name] = f
		}
	}
}

// Higher-order helpers on CONCRETE strings: the function argument is called
// through the interpreter for every rune.
func (m *machine) runePred(fr *frame, f value, r rune) bool {
	res := m.call(fr, 0, f, []value{int64(r)})
	b, ok := res.(bool)
	if !ok {
		panic(cut{"predicate over runes returned a symbolic result"})
	}
	return b
}

func init() {
	add := func(name string, f intrinsic) {
		if _, exists := intrinsics[name]; !exists {
			intrinsics[name] = f
		}
	}
	add("sort.SliceStable", iSortSlice)
	conc := func(v value, what string) string {
		s, ok := v.(string)
		if !ok {
			if t, ok2 := v.(*Term); ok2 && t.Op == "cs" {
				return t.S
			}
			panic(cut{what + " on a symbolic string is not modelled"})
		}
		return s
	}
	add("strings.IndexFunc", func(m *machine, fr *frame, args []value) value {
		s := conc(args[0], "strings.IndexFunc")
		for i, r := range s {
			if m.runePred(fr, args[1], r) {
				return int64(i)
			}
		}
		return int64(-1)
	})
	add("strings.TrimFunc", func(m *machine, fr *frame, args []value) value {
		return strings.TrimFunc(conc(args[0], "strings.TrimFunc"), func(r rune) bool { return m.runePred(fr, args[1], r) })
	})
	add("strings.TrimLeftFunc", func(m *machine, fr *frame, args []value) value {
		return strings.TrimLeftFunc(conc(args[0], "strings.TrimLeftFunc"), func(r rune) bool { return m.runePred(fr, args[1], r) })
	})
	add("strings.TrimRightFunc", func(m *machine, fr *frame, args []value) value {
		return strings.TrimRightFunc(conc(args[0], "strings.TrimRightFunc"), func(r rune) bool { return m.runePred(fr, args[1], r) })
	})
	add("strings.FieldsFunc", func(m *machine, fr *frame, args []value) value {
		return strSlice(strings.FieldsFunc(conc(args[0], "strings.FieldsFunc"), func(r rune) bool { return m.runePred(fr, args[1], r) }))
	})
	add("strings.Map", func(m *machine, fr *frame, args []value) value {
		s := conc(args[1], "strings.Map")
		return strings.Map(func(r rune) rune {
			res := m.call(fr, 0, args[0], []value{int64(r)})
			n, ok := res.(int64)
			if !ok {
				panic(cut{"strings.Map mapping returned a symbolic rune"})
			}
			return rune(n)
		}, s)
	})
}

// utf8.DecodeRuneInString on a symbolic string: the first character is split
// off as in []rune conversion (valid sequences of 1-2 bytes; anything else is
// outside the bound).
func iDecodeRuneInString(m *machine, fr *frame, args []value) value {
	s, sc := strArg(args[0])
	if sc {
		r, n := utf8.DecodeRuneInString(s.S)
		return tuple{int64(r), int64(n)}
	}
	if m.branch(mkStrEq(s, mkStr(""))) {
		return tuple{int64(utf8.RuneError), int64(0)}
	}
	c, _ := m.firstChar(s, 2)
	if c.Op == "cs" {
		r, n := utf8.DecodeRuneInString(c.S)
		return tuple{int64(r), int64(n)}
	}
	size := int64(2)
	if m.branch(mkIntEq(mkLen(c), mkInt(1))) {
		size = 1
	}
	return tuple{&runeStr{enc: c}, size}
}

func init() {
	intrinsics["unicode/utf8.DecodeRuneInString"] = iDecodeRuneInString
}

// strings.EqualFold with one concrete ASCII operand: the other operand matches
// exactly when it is, character by character, one of the members of the simple
// case-folding orbit (k: k K and the Kelvin sign; s: s S and the long s).
func iEqualFold(m *machine, fr *frame, args []value) value {
	a, ac := strArg(args[0])
	b, bc := strArg(args[1])
	if ac && bc {
		return strings.EqualFold(a.S, b.S)
	}
	sym, con := a, b
	if ac {
		sym, con = b, a
	}
	if con.Op != "cs" {
		panic(cut{"strings.EqualFold of two symbolic strings is not modelled"})
	}
	var parts []*Term
	for i := 0; i < len(con.S); i++ {
		c := con.S[i]
		if c >= 0x80 {
			panic(cut{"strings.EqualFold with a non-ASCII constant is not modelled"})
		}
		lo, up := c, c
		if c >= 'a' && c <= 'z' {
			up = c - 32
		} else if c >= 'A' && c <= 'Z' {
			lo = c + 32
		}
		alts := []*Term{reLit(string([]byte{lo}))}
		if up != lo {
			alts = append(alts, reLit(string([]byte{up})))
		}
		switch lo {
		case 'k':
			alts = append(alts, reLit("\u212a"))
		case 's':
			alts = append(alts, reLit("\u017f"))
		}
		parts = append(parts, reUnion(alts...))
	}
	if len(parts) == 0 {
		return fromTerm(mkStrEq(sym, mkStr("")))
	}
	return fromTerm(mkInRe(sym, reConcat(parts...)))
}

func init() {
	intrinsics["strings.EqualFold"] = iEqualFold
}

package main

// Long-lived SMT solver sessions (z3 -in / cvc5 --incremental) with push/pop.

import (
	"bufio"
	"context"
	"fmt"
	"io"
	"os/exec"
	"sort"
	"strconv"
	"strings"
	"sync"
	"sync/atomic"
	"time"
)

type Result int

const (
	Unsat Result = iota
	Sat
	Unknown
)

func (r Result) String() string { return [...]string{"unsat", "sat", "unknown"}[r] }

const preamble = `(set-option :produce-models true)
(declare-fun pf_val (String) Int)
(declare-fun pf32_val (String) Int)
(declare-fun pi0_val (String) Int)
(declare-fun f64_fmt (Int) String)
(declare-fun f64_of_int (Int) Int)
(declare-fun go.tolower (String) String)
`

type Solver struct {
	server    bool
	oneshot   bool
	timeoutMs int
	name      string
	cmd       *exec.Cmd
	in        io.WriteCloser
	out       *bufio.Reader
	depth     int
	dead      bool
	// statistics
	queries int64
	nanos   int64
}

var solverStats struct {
	queries, nanos, unknowns int64
}

type stageStat struct{ n, nanos, unknown int64 }

var (
	stageMu    sync.Mutex
	stageStats = map[string]*stageStat{}
)

func noteStage(name string, d time.Duration, r Result) {
	stageMu.Lock()
	st := stageStats[name]
	if st == nil {
		st = &stageStat{}
		stageStats[name] = st
	}
	st.n++
	st.nanos += d.Nanoseconds()
	if r == Unknown {
		st.unknown++
	}
	stageMu.Unlock()
}

func stageSummary() string {
	stageMu.Lock()
	defer stageMu.Unlock()
	var parts []string
	for name, st := range stageStats {
		parts = append(parts, fmt.Sprintf("%s: %d queries %.1fs (%.0f ms avg) %d unknown", name, st.n, float64(st.nanos)/1e9, float64(st.nanos)/1e6/float64(st.n), st.unknown))
	}
	sort.Strings(parts)
	return strings.Join(parts, "; ")
}

func newSolver(kind string, timeoutMs int) (*Solver, error) {
	var cmd *exec.Cmd
	switch kind {
	case "z3new-s", "z3-s":
		// persistent process used as a server: every query is self-contained
		// between push and pop (no state is shared between queries)
		bin := "z3-new"
		if kind == "z3-s" {
			bin = "z3"
		}
		cmd = exec.Command(bin, "-in", "-t:"+strconv.Itoa(timeoutMs))
		in, err := cmd.StdinPipe()
		if err != nil {
			return nil, err
		}
		out, err := cmd.StdoutPipe()
		if err != nil {
			return nil, err
		}
		cmd.Stderr = cmd.Stdout
		if err := cmd.Start(); err != nil {
			return nil, err
		}
		sv := &Solver{name: kind, cmd: cmd, in: in, out: bufio.NewReaderSize(out, 1<<16), server: true, timeoutMs: timeoutMs}
		if _, err := sv.roundTrip(preamble); err != nil {
			return nil, err
		}
		return sv, nil
	case "cvc5-1", "z3-1", "z3new-1":
		// one process per query: the solvers start in 10-30 ms and cvc5 decides
		// more queries outside incremental mode
		return &Solver{name: kind, oneshot: true, timeoutMs: timeoutMs}, nil
	case "z3":
		cmd = exec.Command("z3", "-in", "-t:"+strconv.Itoa(timeoutMs))
	case "z3-new":
		cmd = exec.Command("z3-new", "-in", "-t:"+strconv.Itoa(timeoutMs))
	case "cvc5":
		cmd = exec.Command("cvc5", "--incremental", "--strings-exp", "--lang=smt2", "--tlimit-per="+strconv.Itoa(timeoutMs))
	default:
		return nil, fmt.Errorf("unknown solver %s", kind)
	}
	in, err := cmd.StdinPipe()
	if err != nil {
		return nil, err
	}
	out, err := cmd.StdoutPipe()
	if err != nil {
		return nil, err
	}
	cmd.Stderr = cmd.Stdout
	if err := cmd.Start(); err != nil {
		return nil, err
	}
	s := &Solver{name: kind, cmd: cmd, in: in, out: bufio.NewReaderSize(out, 1<<16)}
	pre := preamble
	if kind == "cvc5" {
		pre = "(set-logic ALL)\n" + pre
	}
	if _, err := s.roundTrip(pre); err != nil {
		return nil, err
	}
	return s, nil
}

func (s *Solver) close() {
	if s == nil || s.dead || s.oneshot {
		return
	}
	s.dead = true
	s.in.Close()
	_ = s.cmd.Process.Kill()
	_ = s.cmd.Wait()
}

var markerCounter int64

// roundTrip sends text and reads all output up to an echoed marker.
func (s *Solver) roundTrip(text string) ([]string, error) {
	if s.dead {
		return nil, fmt.Errorf("solver %s is dead", s.name)
	}
	m := fmt.Sprintf("@@%d@@", atomic.AddInt64(&markerCounter, 1))
	if _, err := io.WriteString(s.in, text+"\n(echo \""+m+"\")\n"); err != nil {
		s.dead = true
		return nil, err
	}
	var lines []string
	for {
		line, err := s.out.ReadString('\n')
		if err != nil {
			s.dead = true
			return lines, fmt.Errorf("solver %s died: %v (output so far: %v)", s.name, err, lines)
		}
		line = strings.TrimRight(line, "\r\n")
		if strings.Contains(line, m) {
			return lines, nil
		}
		if line != "" {
			lines = append(lines, line)
		}
	}
}

func (s *Solver) push() error {
	s.depth++
	_, err := s.send("(push 1)")
	return err
}

func (s *Solver) pop() error {
	if s.depth == 0 {
		return nil
	}
	s.depth--
	_, err := s.send("(pop 1)")
	return err
}

// send issues commands that produce no output; any output is an error.
func (s *Solver) send(text string) ([]string, error) {
	lines, err := s.roundTrip(text)
	if err != nil {
		return nil, err
	}
	for _, l := range lines {
		if strings.Contains(l, "(error") || strings.Contains(l, "error") {
			return lines, fmt.Errorf("solver %s: %s\n  while sending: %s", s.name, l, truncate(text, 2000))
		}
	}
	return lines, nil
}

func truncate(s string, n int) string {
	if len(s) > n {
		return s[:n] + "..."
	}
	return s
}

// check runs (check-sat) with optional extra text (assertions) first.
func (s *Solver) check(extra string) (Result, error) {
	t0 := time.Now()
	lines, err := s.roundTrip(extra + "\n(check-sat)")
	d := time.Since(t0).Nanoseconds()
	atomic.AddInt64(&solverStats.queries, 1)
	atomic.AddInt64(&solverStats.nanos, d)
	if err != nil {
		return Unknown, err
	}
	res := Unknown
	got := false
	for _, l := range lines {
		if strings.Contains(l, "(error") {
			return Unknown, fmt.Errorf("solver %s: %s\n  in: %s", s.name, l, truncate(extra, 3000))
		}
		switch strings.TrimSpace(l) {
		case "sat":
			res, got = Sat, true
		case "unsat":
			res, got = Unsat, true
		case "unknown", "timeout":
			res, got = Unknown, true
		}
	}
	if !got {
		return Unknown, fmt.Errorf("solver %s: no verdict in %v", s.name, lines)
	}
	if res == Unknown {
		atomic.AddInt64(&solverStats.unknowns, 1)
	}
	return res, nil
}

// getValues asks for the values of the given terms (after a sat answer).
func (s *Solver) getValues(terms []*Term) (map[string]sexp, error) {
	if len(terms) == 0 {
		return map[string]sexp{}, nil
	}
	var b strings.Builder
	b.WriteString("(get-value (")
	for _, t := range terms {
		b.WriteString(t.key)
		b.WriteByte(' ')
	}
	b.WriteString("))")
	lines, err := s.roundTrip(b.String())
	if err != nil {
		return nil, err
	}
	txt := strings.Join(lines, "\n")
	if strings.Contains(txt, "(error") {
		return nil, fmt.Errorf("solver %s get-value: %s", s.name, txt)
	}
	e, _, err := parseSexp(txt, 0)
	if err != nil {
		return nil, fmt.Errorf("solver %s get-value parse: %v in %q", s.name, err, txt)
	}
	res := map[string]sexp{}
	if len(e.list) != len(terms) {
		return nil, fmt.Errorf("solver %s get-value: %d answers for %d terms: %q", s.name, len(e.list), len(terms), txt)
	}
	for i, pair := range e.list {
		if len(pair.list) != 2 {
			return nil, fmt.Errorf("bad pair in get-value: %q", txt)
		}
		res[terms[i].key] = pair.list[1]
	}
	return res, nil
}

// ---------- s-expressions ----------

type sexp struct {
	atom  string
	isStr bool // atom is a string literal (already unescaped)
	list  []sexp
	isLst bool
}

func parseSexp(s string, i int) (sexp, int, error) {
	for i < len(s) && (s[i] == ' ' || s[i] == '\n' || s[i] == '\t' || s[i] == '\r') {
		i++
	}
	if i >= len(s) {
		return sexp{}, i, fmt.Errorf("unexpected end")
	}
	switch s[i] {
	case '(':
		i++
		e := sexp{isLst: true}
		for {
			for i < len(s) && (s[i] == ' ' || s[i] == '\n' || s[i] == '\t' || s[i] == '\r') {
				i++
			}
			if i >= len(s) {
				return e, i, fmt.Errorf("unterminated list")
			}
			if s[i] == ')' {
				return e, i + 1, nil
			}
			c, j, err := parseSexp(s, i)
			if err != nil {
				return e, j, err
			}
			e.list = append(e.list, c)
			i = j
		}
	case '"':
		i++
		var b strings.Builder
		for {
			if i >= len(s) {
				return sexp{}, i, fmt.Errorf("unterminated string")
			}
			if s[i] == '"' {
				if i+1 < len(s) && s[i+1] == '"' {
					b.WriteByte('"')
					i += 2
					continue
				}
				i++
				break
			}
			b.WriteByte(s[i])
			i++
		}
		return sexp{atom: b.String(), isStr: true}, i, nil
	default:
		j := i
		for j < len(s) && !strings.ContainsRune(" \n\t\r()", rune(s[j])) {
			j++
		}
		return sexp{atom: s[i:j]}, j, nil
	}
}

// smtUnescape decodes \u{X} / \uXXXX / \xXX escapes of an SMT-LIB string into
// code points; the bool result is false when a code point exceeds 0xFF.
func smtUnescape(s string) ([]byte, bool) {
	var out []byte
	ok := true
	for i := 0; i < len(s); {
		if s[i] == '\\' && i+1 < len(s) && s[i+1] == 'u' {
			if i+2 < len(s) && s[i+2] == '{' {
				j := strings.IndexByte(s[i:], '}')
				if j > 0 {
					v, err := strconv.ParseInt(s[i+3:i+j], 16, 32)
					if err == nil {
						if v > 0xff {
							ok = false
							v = '?'
						}
						out = append(out, byte(v))
						i += j + 1
						continue
					}
				}
			} else if i+6 <= len(s) {
				v, err := strconv.ParseInt(s[i+2:i+6], 16, 32)
				if err == nil {
					if v > 0xff {
						ok = false
						v = '?'
					}
					out = append(out, byte(v))
					i += 6
					continue
				}
			}
		}
		if s[i] == '\\' && i+3 < len(s) && s[i+1] == 'x' {
			v, err := strconv.ParseInt(s[i+2:i+4], 16, 32)
			if err == nil {
				out = append(out, byte(v))
				i += 4
				continue
			}
		}
		if s[i] >= 0x80 {
			// raw UTF-8 in solver output: decode the rune
			r, n := decodeRune(s[i:])
			if r > 0xff {
				ok = false
				r = '?'
			}
			out = append(out, byte(r))
			i += n
			continue
		}
		out = append(out, s[i])
		i++
	}
	return out, ok
}

func decodeRune(s string) (rune, int) {
	for i, r := range s {
		_ = i
		n := len(string(r))
		if r == 0xfffd {
			n = 1
		}
		return r, n
	}
	return 0, 1
}

func sexpInt(e sexp) (int64, bool) {
	if e.isLst {
		if len(e.list) == 2 && e.list[0].atom == "-" {
			v, ok := sexpInt(e.list[1])
			return -v, ok
		}
		return 0, false
	}
	v, err := strconv.ParseInt(e.atom, 10, 64)
	if err != nil {
		// may be -9223372036854775808 written as (- 9223372036854775808)
		u, err2 := strconv.ParseUint(e.atom, 10, 64)
		if err2 == nil && u == 1<<63 {
			return -1 << 63, true // caller negates: -(-2^63) overflows back to -2^63
		}
		return 0, false
	}
	return v, true
}

// runOneShot runs a complete script on a fresh cvc5 process.
func (s *Solver) runOneShot(script string, wantValues bool) (Result, string, error) {
	return s.runOneShotCtx(context.Background(), script)
}

func (s *Solver) runOneShotCtx(ctx context.Context, script string) (Result, string, error) {
	t0 := time.Now()
	var cmd *exec.Cmd
	switch s.name {
	case "z3-1":
		cmd = exec.CommandContext(ctx, "z3", "-in", "-t:"+strconv.Itoa(s.timeoutMs))
		cmd.Stdin = strings.NewReader(preamble + script)
	case "z3new-1":
		cmd = exec.CommandContext(ctx, "z3-new", "-in", "-t:"+strconv.Itoa(s.timeoutMs))
		cmd.Stdin = strings.NewReader(preamble + script)
	default:
		cmd = exec.CommandContext(ctx, "cvc5", "--lang=smt2", "--strings-exp", "--tlimit="+strconv.Itoa(s.timeoutMs))
		cmd.Stdin = strings.NewReader("(set-logic ALL)\n" + preamble + script)
	}
	out, _ := cmd.CombinedOutput()
	atomic.AddInt64(&solverStats.queries, 1)
	atomic.AddInt64(&solverStats.nanos, time.Since(t0).Nanoseconds())
	txt := string(out)
	first := txt
	rest := ""
	if i := strings.IndexByte(txt, '\n'); i >= 0 {
		first, rest = txt[:i], txt[i+1:]
	}
	switch strings.TrimSpace(first) {
	case "sat":
		return Sat, rest, nil
	case "unsat":
		return Unsat, "", nil
	case "unknown", "timeout":
		atomic.AddInt64(&solverStats.unknowns, 1)
		return Unknown, "", nil
	}
	if strings.Contains(txt, "interrupted by timeout") || strings.Contains(txt, "timeout") {
		atomic.AddInt64(&solverStats.unknowns, 1)
		return Unknown, "", nil
	}
	if strings.TrimSpace(txt) == "" || ctx.Err() != nil {
		atomic.AddInt64(&solverStats.unknowns, 1)
		return Unknown, "", nil
	}
	return Unknown, "", fmt.Errorf(s.name+": unexpected output %q\n  for script: %s", truncate(txt, 500), truncate(script, 3000))
}

func parseValues(txt string, terms []*Term) (map[string]sexp, error) {
	if strings.Contains(txt, "(error") {
		return nil, fmt.Errorf("get-value: %s", truncate(txt, 500))
	}
	e, _, err := parseSexp(txt, 0)
	if err != nil {
		return nil, fmt.Errorf("get-value parse: %v in %q", err, truncate(txt, 500))
	}
	res := map[string]sexp{}
	if len(e.list) != len(terms) {
		return nil, fmt.Errorf("get-value: %d answers for %d terms", len(e.list), len(terms))
	}
	for i, pair := range e.list {
		if len(pair.list) != 2 {
			return nil, fmt.Errorf("bad pair in get-value")
		}
		res[terms[i].key] = pair.list[1]
	}
	return res, nil
}

// runServer runs a self-contained query on a persistent solver process.
func (s *Solver) runServer(script string) (Result, error) {
	t0 := time.Now()
	lines, err := s.roundTrip("(push 1)\n" + script + "(check-sat)\n(pop 1)")
	atomic.AddInt64(&solverStats.queries, 1)
	atomic.AddInt64(&solverStats.nanos, time.Since(t0).Nanoseconds())
	if err != nil {
		return Unknown, err
	}
	for _, l := range lines {
		if strings.Contains(l, "(error") {
			return Unknown, fmt.Errorf("solver %s: %s\n  in: %s", s.name, l, truncate(script, 3000))
		}
	}
	for _, l := range lines {
		switch strings.TrimSpace(l) {
		case "sat":
			return Sat, nil
		case "unsat":
			return Unsat, nil
		}
	}
	atomic.AddInt64(&solverStats.unknowns, 1)
	return Unknown, nil
}

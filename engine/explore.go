package main

// Path exploration: worklist of decision prefixes, parallel workers, each run
// re-executes the harness from the start following its prefix.

import (
	"fmt"
	"os"
	"runtime"
	"runtime/debug"
	"sort"
	"strconv"
	"strings"
	"sync"
	"sync/atomic"
	"time"

	"golang.org/x/tools/go/ssa"
)

type violation struct {
	Harness    string
	AssertID   string
	Model      map[string]modelVal
	Trace      []decision
	Kind       string // assert, panic, hang
	Detail     string
	Source     string // solver | concordance
	ReplayPath string
	Sched      []int64
}

type pathSummary struct {
	Harness   string
	Index     int
	Trace     []decision
	End       string // return, cut:<r>, infeasible, define-panic, run-panic, exit, overflow
	Asserts   []assertOutcome
	Reach     []string
	Model     map[string]modelVal
	Expect    *nativeExpect
	Decisions int
	Sched     []int64
}

type explorer struct {
	w       *world
	entry   *ssa.Function
	harness string
	opts    exploreOpts

	mu     sync.Mutex
	cond   *sync.Cond
	stack  [][]decision
	active int
	stop   bool

	paths         int
	transitions   int
	ends          map[string]int
	cuts          map[string]int
	assertStats   map[string]map[string]int
	reachSeen     map[string]int
	violations    []violation
	inconclusive  []string
	unknownBr     int
	queries       int64
	perSolver     [4]int64
	funcs         map[string]int
	intrinsics    map[string]int
	assumptions   map[string]bool
	samples       []pathSummary
	concord       []pathSummary // paths selected for native concordance
	concordEvery  int
	maxTraceLen   int
	wall          float64
	budgetHit     bool
	stoppedEarly  bool // enough counterexample candidates: the rest of the space was not explored
	vioSeen       int
	vioPerID      map[string]int
	modelsTaken   int
	modelsUnknown int
	single        bool
}

type exploreOpts struct {
	Workers    int
	MaxPaths   int
	Deadline   time.Time
	ConcordMax int
	SampleMax  int
	Solvers    []string
	SolverMs   []int
}

func (x *explorer) noteQuery(si int) {
	atomic.AddInt64(&x.queries, 1)
	if si < len(x.perSolver) {
		atomic.AddInt64(&x.perSolver[si], 1)
	}
}

// addViolation keeps at most 40 counterexample candidates per assertion (the
// native replay looks at 12) and ends the exploration of the harness once 400
// are known in all: a counterexample does not need the rest of the space.
// Called with x.mu held.
func (x *explorer) addViolation(v violation) {
	if x.vioPerID == nil {
		x.vioPerID = map[string]int{}
	}
	x.vioSeen++
	x.vioPerID[v.AssertID]++
	if x.vioPerID[v.AssertID] <= 40 {
		x.violations = append(x.violations, v)
	}
	if x.vioSeen >= 400 && !x.stop {
		x.stop = true
		x.stoppedEarly = true
	}
}

// memoryExceeded: the process heap is beyond the guard (default 12 GB,
// SYMGO_MEM_MB); checked at most twice a second.
var (
	memMu      sync.Mutex
	memChecked time.Time
	memOver    bool
)

func memoryExceeded() bool {
	memMu.Lock()
	defer memMu.Unlock()
	if time.Since(memChecked) < 500*time.Millisecond {
		return memOver
	}
	memChecked = time.Now()
	limit := uint64(12 << 30)
	if v := os.Getenv("SYMGO_MEM_MB"); v != "" {
		if n, err := strconv.Atoi(v); err == nil && n > 0 {
			limit = uint64(n) << 20
		}
	}
	var ms runtime.MemStats
	runtime.ReadMemStats(&ms)
	memOver = ms.HeapAlloc > limit
	return memOver
}

func (x *explorer) stopped() bool {
	if memoryExceeded() {
		x.mu.Lock()
		if !x.stop {
			x.stop = true
			x.budgetHit = true
			x.inconclusive = append(x.inconclusive, "memory guard: the engine's heap exceeded its limit while exploring "+x.harness)
		}
		x.mu.Unlock()
		x.cond.Broadcast()
		return true
	}
	if !x.opts.Deadline.IsZero() && time.Now().After(x.opts.Deadline) {
		x.mu.Lock()
		if !x.stop {
			x.stop = true
			x.budgetHit = true
		}
		x.mu.Unlock()
		x.cond.Broadcast()
		return true
	}
	return false
}

// wantConcordance selects the paths whose full model is extracted and replayed
// natively: all of the first ones, then a hash-selected fraction.
func (x *explorer) wantConcordance(trace []decision) bool {
	x.mu.Lock()
	n := x.modelsTaken
	x.mu.Unlock()
	rate := uint32(1)
	switch {
	case n >= x.opts.ConcordMax:
		return false
	case n >= x.opts.ConcordMax/2:
		rate = 16
	case n >= x.opts.ConcordMax/4:
		rate = 4
	}
	h := uint32(2166136261)
	for _, d := range trace {
		h = (h ^ uint32(d.Choice+1)) * 16777619
	}
	if h%rate != 0 {
		return false
	}
	x.mu.Lock()
	x.modelsTaken++
	x.mu.Unlock()
	return true
}

func (x *explorer) noteUnknownBranch(c *Term) {
	x.mu.Lock()
	x.unknownBr++
	x.mu.Unlock()
}

func (x *explorer) push(p []decision) {
	if x.single {
		return
	}
	x.mu.Lock()
	x.stack = append(x.stack, p)
	x.mu.Unlock()
	x.cond.Signal()
}

func (x *explorer) pop() ([]decision, bool) {
	x.mu.Lock()
	defer x.mu.Unlock()
	for {
		if x.stop {
			return nil, false
		}
		if n := len(x.stack); n > 0 {
			p := x.stack[n-1]
			x.stack = x.stack[:n-1]
			x.active++
			return p, true
		}
		if x.active == 0 {
			x.cond.Broadcast()
			return nil, false
		}
		x.cond.Wait()
	}
}

func (x *explorer) done() {
	x.mu.Lock()
	x.active--
	x.mu.Unlock()
	x.cond.Broadcast()
}

func explore(w *world, entry *ssa.Function, opts exploreOpts) *explorer {
	x := &explorer{w: w, entry: entry, harness: entry.Name(), opts: opts,
		ends: map[string]int{}, cuts: map[string]int{}, assertStats: map[string]map[string]int{},
		reachSeen: map[string]int{}, funcs: map[string]int{}, intrinsics: map[string]int{}, assumptions: map[string]bool{}}
	x.cond = sync.NewCond(&x.mu)
	x.stack = [][]decision{nil}
	if pfx := os.Getenv("SYMGO_PREFIX"); pfx != "" {
		var pre []decision
		for _, f := range strings.Split(pfx, ".") {
			var c int
			fmt.Sscanf(f, "%d", &c)
			pre = append(pre, decision{Choice: c, N: 9})
		}
		x.stack = [][]decision{pre}
		x.single = true
	}
	var wg sync.WaitGroup
	for i := 0; i < opts.Workers; i++ {
		wg.Add(1)
		go func() {
			defer wg.Done()
			var pool []*Solver
			defer func() {
				for _, s := range pool {
					s.close()
				}
			}()
			for {
				p, ok := x.pop()
				if !ok {
					return
				}
				for i, kind := range opts.Solvers {
					if i < len(pool) && !pool[i].dead {
						continue
					}
					s, err := newSolver(kind, opts.SolverMs[i])
					if err != nil {
						x.mu.Lock()
						x.inconclusive = append(x.inconclusive, "cannot start solver: "+err.Error())
						x.stop = true
						x.mu.Unlock()
						x.done()
						return
					}
					if i < len(pool) {
						pool[i] = s
					} else {
						pool = append(pool, s)
					}
				}
				x.runPath(pool, p)
				x.done()
				x.mu.Lock()
				if (opts.MaxPaths > 0 && x.paths >= opts.MaxPaths) || (!opts.Deadline.IsZero() && time.Now().After(opts.Deadline)) {
					if len(x.stack) > 0 || x.active > 0 {
						x.budgetHit = true
					}
					x.stop = true
				}
				x.mu.Unlock()
				x.cond.Broadcast()
			}
		}()
	}
	wg.Wait()
	return x
}

func (x *explorer) runPath(pool []*Solver, prefix []decision) {
	m := newMachine(x, pool, prefix)
	end := "return"
	var detail string
	func() {
		defer func() {
			r := recover()
			if r == nil {
				return
			}
			switch r := r.(type) {
			case cut:
				end, detail = "cut", r.reason
			case pathEnd:
				end, detail = "infeasible", r.reason
				if r.reason == "assertion fails on the whole path" {
					end = "asserted"
				}
			case exitPanic:
				end = "exit"
			case unwindOverflow:
				end, detail = "overflow", r.why
			case abortRun:
				end, detail = "abort", r.why
			case targetPanic:
				if m.phase == "define" {
					end = "define-panic"
				} else {
					end = "run-panic"
				}
				detail = panicText(r.v)
			case engineBug:
				end, detail = "engine-bug", fmt.Sprintf("%v at %s\n%s", r.r, r.where, debug.Stack())
			default:
				end, detail = "engine-bug", fmt.Sprintf("%v\n%s", r, debug.Stack())
			}
		}()
		m.runInits()
		m.runMain(x.entry)
	}()

	ps := pathSummary{Harness: x.harness, Trace: m.trace, End: end, Asserts: m.outcomes, Reach: m.reach, Decisions: len(m.trace)}
	var sched []int64
	if m.sched != nil {
		sched = m.sched.delivery
		ps.Sched = sched
	}
	if detail != "" && end != "return" {
		ps.End = end + ":" + detail
	}

	// final model / feasibility of the whole path, expected observations
	var vio []violation
	needModel := end == "return" || end == "exit" || end == "run-panic" || end == "overflow" || end == "define-panic"
	if needModel && end != "run-panic" && end != "overflow" && !m.pcUnknown && !x.wantConcordance(m.trace) {
		needModel = false
	}
	if needModel {
		func() {
			defer func() {
				if r := recover(); r != nil {
					if a, ok := r.(abortRun); ok {
						end, detail = "abort", a.why
						ps.End = "abort:" + a.why
						return
					}
					panic(r)
				}
			}()
			obsTerms := m.obsTerms()
			mod, vals, res := m.model(nil, obsTerms)
			switch res {
			case Unsat:
				end = "infeasible"
				ps.End = "infeasible:final"
			case Unknown:
				// the path's feasibility was established branch by branch; only
				// the sample model for the native comparison is missing
				x.mu.Lock()
				x.modelsUnknown++
				if m.pcUnknown || end == "run-panic" || end == "overflow" {
					x.inconclusive = append(x.inconclusive, "final path model unknown on a path with undecided branches or a failure in "+x.harness)
				}
				x.mu.Unlock()
			case Sat:
				ps.Model = mod
				ps.Expect = m.expectations(vals, end)
				switch end {
				case "run-panic":
					vio = append(vio, violation{Harness: x.harness, AssertID: "no-panic", Model: mod, Trace: m.trace, Kind: "panic", Detail: detail, Source: "solver", Sched: sched})
				case "overflow":
					vio = append(vio, violation{Harness: x.harness, AssertID: "no-hang", Model: mod, Trace: m.trace, Kind: "hang", Detail: detail, Source: "solver", Sched: sched})
				}
			}
		}()
	}
	m.endSessions()

	x.mu.Lock()
	defer x.mu.Unlock()
	x.paths++
	ps.Index = x.paths
	x.transitions += len(m.trace)
	if len(m.trace) > x.maxTraceLen {
		x.maxTraceLen = len(m.trace)
	}
	key := end
	x.ends[key]++
	if end == "cut" {
		x.cuts[detail]++
	}
	if end == "abort" && detail == "budget" {
		x.budgetHit = true
	} else if end == "abort" || end == "engine-bug" {
		x.inconclusive = append(x.inconclusive, end+": "+truncate(detail, 1500))
	}
	if end != "infeasible" && end != "abort" {
		for _, o := range m.outcomes {
			st := x.assertStats[o.ID]
			if st == nil {
				st = map[string]int{}
				x.assertStats[o.ID] = st
			}
			st[o.Status]++
			switch o.Status {
			case "violated":
				x.addViolation(violation{Harness: x.harness, AssertID: o.ID, Model: o.Model, Trace: m.trace, Kind: "assert", Source: "solver", Sched: sched})
			case "unknown":
				x.inconclusive = append(x.inconclusive, "assertion "+o.ID+" undecided (solver unknown) in "+x.harness)
			}
		}
		for _, r := range m.reach {
			x.reachSeen[r]++
		}
		for _, v := range vio {
			x.addViolation(v)
		}
	}
	for f, n := range m.funcsRun {
		x.funcs[f.String()] += n
	}
	for f, n := range m.intrinsicsUsed {
		x.intrinsics[f] += n
	}
	for a := range m.assumptions {
		x.assumptions[a] = true
	}
	if ps.Model != nil && (end == "return" || end == "exit" || end == "define-panic") {
		if len(x.concord) < x.opts.ConcordMax {
			x.concord = append(x.concord, ps)
		}
	}
	if len(x.samples) < x.opts.SampleMax && ps.Model != nil {
		x.samples = append(x.samples, ps)
	}
	if os.Getenv("SYMGO_TRACE") != "" {
		fmt.Fprintf(os.Stderr, "[path %d] %s end=%s decisions=%d asserts=%v\n", ps.Index, x.harness, ps.End, len(m.trace), summarizeOutcomes(m.outcomes))
	}
}

func summarizeOutcomes(os []assertOutcome) string {
	var b []string
	for _, o := range os {
		b = append(b, o.ID+"="+o.Status)
	}
	return strings.Join(b, ",")
}

func panicText(v value) string {
	if i, ok := v.(iface); ok {
		if s, ok := i.v.(string); ok {
			return s
		}
		return toString(i.v)
	}
	return toString(v)
}

func sortedCounts(m map[string]int) []string {
	var ks []string
	for k := range m {
		ks = append(ks, k)
	}
	sort.Strings(ks)
	var out []string
	for _, k := range ks {
		out = append(out, fmt.Sprintf("%s=%d", k, m[k]))
	}
	return out
}

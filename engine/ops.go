package main

import (
	"fmt"
	"go/constant"
	"go/token"
	"go/types"
	"math"
	"unicode/utf8"

	"golang.org/x/tools/go/ssa"
)

func f64bits(f float64) uint64 { return math.Float64bits(f) }

func constValue(c *ssa.Const) value {
	if c.Value == nil {
		return zero(c.Type())
	}
	if t, ok := c.Type().Underlying().(*types.Basic); ok {
		switch {
		case t.Info()&types.IsBoolean != 0:
			return constant.BoolVal(c.Value)
		case t.Info()&types.IsInteger != 0:
			if t.Info()&types.IsUnsigned != 0 {
				return int64(c.Uint64())
			}
			return c.Int64()
		case t.Info()&types.IsFloat != 0:
			return c.Float64()
		case t.Info()&types.IsComplex != 0:
			return c.Complex128()
		case t.Info()&types.IsString != 0:
			if c.Value.Kind() == constant.String {
				return constant.StringVal(c.Value)
			}
			return string(rune(c.Int64()))
		}
	}
	panic(fmt.Sprintf("constValue: %s", c))
}

// ---------- slices ----------

func (m *machine) slice(instr *ssa.Slice, x, lo, hi, max value) value {
	switch x := x.(type) {
	case string:
		if isSym(lo) || isSym(hi) {
			return m.symStrSlice(mkStr(x), lo, hi)
		}
		l, h := int64(0), int64(len(x))
		if lo != nil {
			l = asInt64(lo)
		}
		if hi != nil {
			h = asInt64(hi)
		}
		if l < 0 || h > int64(len(x)) || l > h {
			panic(m.runtimeError(fmt.Sprintf("slice bounds out of range [%d:%d] with length %d", l, h, len(x))))
		}
		return x[l:h]
	case *Term:
		return m.symStrSlice(x, lo, hi)
	case []value:
		l, h, mx := int64(0), int64(len(x)), int64(cap(x))
		if lo != nil {
			l = m.concretize(lo, 0, int64(cap(x)))
		}
		if hi != nil {
			h = m.concretize(hi, 0, int64(cap(x)))
		}
		if max != nil {
			mx = asInt64(max)
		}
		if l < 0 || h > int64(cap(x)) || l > h || mx > int64(cap(x)) || h > mx {
			panic(m.runtimeError(fmt.Sprintf("slice bounds out of range [%d:%d] with capacity %d", l, h, cap(x))))
		}
		if x == nil {
			return x
		}
		return x[l:h:mx]
	case *value: // *array
		a := (*x).(array)
		l, h, mx := int64(0), int64(len(a)), int64(len(a))
		if lo != nil {
			l = asInt64(lo)
		}
		if hi != nil {
			h = asInt64(hi)
		}
		if max != nil {
			mx = asInt64(max)
		}
		if l < 0 || h > int64(len(a)) || l > h || h > mx {
			panic(m.runtimeError("slice bounds out of range"))
		}
		return []value(a)[l:h:mx]
	case *runesV:
		return m.runesSlice(x, lo, hi)
	}
	panic(fmt.Sprintf("slice: unexpected X type: %T", x))
}

// concretize turns a symbolic integer into a concrete one by forking over [lo,hi].
func (m *machine) concretize(v value, lo, hi int64) int64 {
	t, ok := v.(*Term)
	if !ok {
		return v.(int64)
	}
	if hi-lo > 64 {
		panic(cut{"symbolic integer with too wide a range must be concretised: " + t.key})
	}
	for k := lo; k <= hi; k++ {
		if m.branch(mkIntEq(t, mkInt(k))) {
			return k
		}
	}
	panic(m.runtimeError("slice bounds out of range (symbolic)"))
}

// symStrSlice implements s[lo:hi] on a symbolic string through a word equation.
func (m *machine) symStrSlice(s *Term, lo, hi value) value {
	var l, h *Term
	if lo == nil {
		l = mkInt(0)
	} else {
		l = toTerm(lo)
	}
	if hi == nil {
		h = mkLen(s)
	} else {
		h = toTerm(hi)
	}
	ok := mkAnd(mkCmp(">=", l, mkInt(0)), mkCmp("<=", l, h), mkCmp("<=", h, mkLen(s)))
	if !m.branch(ok) {
		panic(m.runtimeError("slice bounds out of range (string)"))
	}
	// s = x ++ y ++ z, |x| = l, |y| = h-l
	var parts []*Term
	var x, z *Term
	if !(l.Op == "ci" && l.I == 0) {
		x = m.freshStr("sl_pre")
		parts = append(parts, x)
	}
	y := m.freshStr("sl_mid")
	parts = append(parts, y)
	if hi != nil {
		z = m.freshStr("sl_post")
		parts = append(parts, z)
	}
	m.assume(mkStrEq(s, mkConcat(parts...)))
	if x != nil {
		m.assume(mkIntEq(mkLen(x), l))
	}
	if z != nil {
		m.assume(mkIntEq(mkLen(y), mkSub(h, l)))
	}
	return y
}

// ---------- maps ----------

func (m *machine) newMap(kt types.Type) *mapV {
	m.mapCounter++
	return &mapV{id: m.mapCounter, kt: kt}
}

// mapFind returns the index of key in mp, or -1 (forking on symbolic keys).
func (m *machine) mapFind(mp *mapV, key value) int {
	if mp == nil {
		return -1
	}
	for i, k := range mp.keys {
		r := equals(mp.kt, k, key)
		switch r := r.(type) {
		case bool:
			if r {
				return i
			}
		case *Term:
			if m.branch(r) {
				return i
			}
		}
	}
	return -1
}

func (m *machine) mapInsert(mp *mapV, key, v value) {
	if i := m.mapFind(mp, key); i >= 0 {
		mp.vals[i] = v
		return
	}
	mp.keys = append(mp.keys, key)
	mp.vals = append(mp.vals, v)
}

func (m *machine) mapDelete(mp *mapV, key value) {
	if i := m.mapFind(mp, key); i >= 0 {
		mp.keys = append(mp.keys[:i:i], mp.keys[i+1:]...)
		mp.vals = append(mp.vals[:i:i], mp.vals[i+1:]...)
	}
}

func (m *machine) lookup(instr *ssa.Lookup, x, idx value) value {
	switch x := x.(type) {
	case *mapV:
		var v value
		ok := false
		if i := m.mapFind(x, idx); i >= 0 {
			v, ok = copyVal(x.vals[i]), true
		} else {
			v = zero(instr.X.Type().Underlying().(*types.Map).Elem())
		}
		if instr.CommaOk {
			return tuple{v, ok}
		}
		return v
	case string:
		if it, ok := idx.(*Term); ok {
			return m.strIndex(mkStr(x), it)
		}
		i := idx.(int64)
		if i < 0 || i >= int64(len(x)) {
			panic(m.runtimeError("index out of range"))
		}
		return int64(x[i])
	case *Term:
		return m.strIndex(x, toTerm(idx))
	}
	panic(fmt.Sprintf("unexpected x type in Lookup: %T", x))
}

// ---------- iteration ----------

type iter interface {
	next(m *machine) tuple
}

type mapIter struct {
	mp    *mapV
	order []int
	keys  []value // snapshot
	pos   int
}

func (it *mapIter) next(m *machine) tuple {
	for it.pos < len(it.order) {
		k := it.keys[it.order[it.pos]]
		it.pos++
		// the entry may have been deleted meanwhile
		for j, kk := range it.mp.keys {
			if r, ok := equals(it.mp.kt, kk, k).(bool); ok && r {
				return tuple{true, k, copyVal(it.mp.vals[j])}
			}
		}
	}
	return tuple{false, nil, nil}
}

type stringIter struct {
	s string
	i int
}

func (it *stringIter) next(m *machine) tuple {
	if it.i >= len(it.s) {
		return tuple{false, int64(0), int64(0)}
	}
	r, n := utf8.DecodeRuneInString(it.s[it.i:])
	res := tuple{true, int64(it.i), int64(r)}
	it.i += n
	return res
}

// symStringIter ranges over a symbolic string character by character (1-2
// byte UTF-8 sequences, at most runesMax characters).
type symStringIter struct {
	rem   *Term
	off   int64
	count int
}

func (it *symStringIter) next(m *machine) tuple {
	if m.branch(mkStrEq(it.rem, mkStr(""))) {
		return tuple{false, int64(0), int64(0)}
	}
	if it.count >= m.runesMax {
		panic(cut{fmt.Sprintf("range over a symbolic string of more than %d characters (outside bound)", m.runesMax)})
	}
	c, rest := m.firstCharAny(it.rem)
	res := tuple{true, it.off, &runeStr{enc: c}}
	n := int64(1)
	if c.Op == "cs" {
		n = int64(len(c.S))
	} else if m.known[mkIntEq(mkLen(c), mkInt(2)).key] {
		n = 2
	}
	it.off += n
	it.count++
	it.rem = rest
	return res
}

func (m *machine) rangeIter(x value, t types.Type) iter {
	switch x := x.(type) {
	case *mapV:
		it := &mapIter{mp: x}
		if x != nil {
			it.keys = append(it.keys, x.keys...)
			it.order = m.mapOrder(x)
		}
		return it
	case string:
		return &stringIter{s: x}
	case *Term:
		return &symStringIter{rem: x}
	}
	panic(fmt.Sprintf("cannot range over %T", x))
}

// ---------- unary / binary operators ----------

func (m *machine) unop(fr *frame, instr *ssa.UnOp, x value) value {
	switch instr.Op {
	case token.ARROW:
		return m.chanRecv(fr, x.(*chanV), instr.CommaOk, instr.X.Type().Underlying().(*types.Chan).Elem())
	case token.SUB:
		switch x := x.(type) {
		case int64:
			k, _ := intKindOf(instr.Type())
			return wrapConcrete(k, -x)
		case float64:
			return -x
		case *Term:
			if x.Sort == SInt {
				k, _ := intKindOf(instr.Type())
				return fromTerm(wrapInt(mkNeg(x), k.bits, k.signed))
			}
			panic(cut{"negation of symbolic float"})
		}
	case token.MUL:
		p := x.(*value)
		if p == nil {
			panic(m.runtimeError("invalid memory address or nil pointer dereference"))
		}
		return load(deref(instr.X.Type()), p)
	case token.NOT:
		switch x := x.(type) {
		case bool:
			return !x
		case *Term:
			return fromTerm(mkNot(x))
		}
	case token.XOR:
		switch x := x.(type) {
		case int64:
			k, _ := intKindOf(instr.Type())
			return wrapConcrete(k, ^x)
		}
		panic(cut{"bitwise complement of symbolic integer"})
	}
	panic(fmt.Sprintf("invalid unary op %s %T", instr.Op, x))
}

func (m *machine) binop(op token.Token, t types.Type, x, y value) value {
	// nil comparisons and composite equality
	switch op {
	case token.EQL:
		return m.eqv(t, x, y)
	case token.NEQ:
		r := m.eqv(t, x, y)
		if b, ok := r.(bool); ok {
			return !b
		}
		return fromTerm(mkNot(r.(*Term)))
	}
	if rc, ok := x.(*runeCount); ok {
		return m.runeCountCmp(op, rc, y, false)
	}
	if rc, ok := y.(*runeCount); ok {
		return m.runeCountCmp(op, rc, x, true)
	}
	if isSym(x) || isSym(y) {
		return m.symBinop(op, t, x, y)
	}
	switch xv := x.(type) {
	case int64:
		yv := y.(int64)
		k, _ := intKindOf(t)
		switch op {
		case token.ADD:
			return wrapConcrete(k, xv+yv)
		case token.SUB:
			return wrapConcrete(k, xv-yv)
		case token.MUL:
			return wrapConcrete(k, xv*yv)
		case token.QUO:
			if yv == 0 {
				panic(m.runtimeError("integer divide by zero"))
			}
			if !k.signed && k.bits == 64 {
				return int64(uint64(xv) / uint64(yv))
			}
			return wrapConcrete(k, xv/yv)
		case token.REM:
			if yv == 0 {
				panic(m.runtimeError("integer divide by zero"))
			}
			if !k.signed && k.bits == 64 {
				return int64(uint64(xv) % uint64(yv))
			}
			return wrapConcrete(k, xv%yv)
		case token.AND:
			return xv & yv
		case token.OR:
			return xv | yv
		case token.XOR:
			return wrapConcrete(k, xv^yv)
		case token.AND_NOT:
			return xv &^ yv
		case token.SHL:
			if yv < 0 {
				panic(m.runtimeError("negative shift amount"))
			}
			if yv >= 64 {
				return int64(0)
			}
			return wrapConcrete(k, xv<<uint(yv))
		case token.SHR:
			if yv < 0 {
				panic(m.runtimeError("negative shift amount"))
			}
			if !k.signed {
				if yv >= 64 {
					return int64(0)
				}
				return int64(uint64(xv) >> uint(yv))
			}
			if yv >= 64 {
				yv = 63
			}
			return xv >> uint(yv)
		case token.LSS:
			if !k.signed && k.bits == 64 {
				return uint64(xv) < uint64(yv)
			}
			return xv < yv
		case token.LEQ:
			if !k.signed && k.bits == 64 {
				return uint64(xv) <= uint64(yv)
			}
			return xv <= yv
		case token.GTR:
			if !k.signed && k.bits == 64 {
				return uint64(xv) > uint64(yv)
			}
			return xv > yv
		case token.GEQ:
			if !k.signed && k.bits == 64 {
				return uint64(xv) >= uint64(yv)
			}
			return xv >= yv
		}
	case float64:
		yv := y.(float64)
		switch op {
		case token.ADD:
			return xv + yv
		case token.SUB:
			return xv - yv
		case token.MUL:
			return xv * yv
		case token.QUO:
			return xv / yv
		case token.LSS:
			return xv < yv
		case token.LEQ:
			return xv <= yv
		case token.GTR:
			return xv > yv
		case token.GEQ:
			return xv >= yv
		}
	case string:
		yv := y.(string)
		switch op {
		case token.ADD:
			return xv + yv
		case token.LSS:
			return xv < yv
		case token.LEQ:
			return xv <= yv
		case token.GTR:
			return xv > yv
		case token.GEQ:
			return xv >= yv
		}
	case bool:
		yv := y.(bool)
		switch op {
		case token.AND, token.LAND:
			return xv && yv
		case token.OR, token.LOR:
			return xv || yv
		}
	}
	panic(fmt.Sprintf("invalid binary op: %T %s %T", x, op, y))
}

func (m *machine) eqv(t types.Type, x, y value) value {
	if rc, ok := x.(*runeCount); ok {
		return m.runeCountCmp(token.EQL, rc, y, false)
	}
	if rc, ok := y.(*runeCount); ok {
		return m.runeCountCmp(token.EQL, rc, x, true)
	}
	// comparisons against nil for slices, maps, funcs
	switch xv := x.(type) {
	case []value:
		if ys, ok := y.([]value); ok {
			if xv == nil || ys == nil {
				return xv == nil && ys == nil
			}
		}
	case *ssa.Function:
		return isNilValue(x) && isNilValue(y) || x == y
	case *closure:
		if isNilValue(y) {
			return xv == nil
		}
	case *runesV:
		return false
	case *runeStr:
		panic(cut{"comparison of a symbolic rune"})
	}
	if _, ok := y.(*closure); ok && isNilValue(x) {
		return isNilValue(y)
	}
	if _, ok := x.(float64); ok {
		if yt, ok2 := y.(*Term); ok2 {
			return fromTerm(mkEq(toTerm(x), yt))
		}
	}
	return equals(t, x, y)
}

func (m *machine) symBinop(op token.Token, t types.Type, x, y value) value {
	xt, yt := toTerm(x), toTerm(y)
	switch xt.Sort {
	case SInt:
		k, _ := intKindOf(t)
		switch op {
		case token.ADD:
			return fromTerm(wrapInt(mkAdd(xt, yt), k.bits, k.signed))
		case token.SUB:
			return fromTerm(wrapInt(mkSub(xt, yt), k.bits, k.signed))
		case token.MUL:
			return fromTerm(wrapInt(mkMul(xt, yt), k.bits, k.signed))
		case token.LSS:
			return fromTerm(mkCmp("<", xt, yt))
		case token.LEQ:
			return fromTerm(mkCmp("<=", xt, yt))
		case token.GTR:
			return fromTerm(mkCmp(">", xt, yt))
		case token.GEQ:
			return fromTerm(mkCmp(">=", xt, yt))
		case token.QUO, token.REM:
			if yt.Op == "ci" && yt.I > 0 && xt.rng && xt.lo >= 0 {
				o := "div"
				if op == token.REM {
					o = "mod"
				}
				r := rawApp(o, SInt, xt, yt)
				r.rng, r.lo, r.hi = true, 0, xt.hi
				return r
			}
		}
		panic(cut{fmt.Sprintf("integer operator %s on symbolic operands", op)})
	case SStr:
		switch op {
		case token.ADD:
			return fromTerm(m.foldTerm(mkConcat(xt, yt)))
		}
		panic(cut{fmt.Sprintf("string operator %s on symbolic operands", op)})
	case SBool:
		switch op {
		case token.AND, token.LAND:
			return fromTerm(mkAnd(xt, yt))
		case token.OR, token.LOR:
			return fromTerm(mkOr(xt, yt))
		}
	case SF64:
		panic(cut{fmt.Sprintf("float operator %s on symbolic operands", op)})
	}
	panic(fmt.Sprintf("symBinop: %s on %v", op, xt.Sort))
}

// ---------- type assertions ----------

func (m *machine) typeAssert(instr *ssa.TypeAssert, itf iface) value {
	var v value
	err := ""
	if itf.t == nil {
		err = fmt.Sprintf("interface conversion: interface is nil, not %s", instr.AssertedType)
	} else if idst, ok := instr.AssertedType.Underlying().(*types.Interface); ok {
		v = itf
		if meth, _ := types.MissingMethod(itf.t, idst, true); meth != nil {
			err = fmt.Sprintf("interface conversion: %v is not %v: missing method %s", itf.t, idst, meth.Name())
		}
	} else if types.Identical(itf.t, instr.AssertedType) {
		v = itf.v
	} else {
		err = fmt.Sprintf("interface conversion: interface is %s, not %s", itf.t, instr.AssertedType)
	}
	if err != "" {
		if !instr.CommaOk {
			panic(m.runtimeError(err))
		}
		return tuple{zero(instr.AssertedType), false}
	}
	if instr.CommaOk {
		return tuple{v, true}
	}
	return v
}

// ---------- builtins ----------

func (m *machine) callBuiltin(caller *frame, callpos token.Pos, fn *ssa.Builtin, args []value) value {
	switch fn.Name() {
	case "append":
		if len(args) == 1 {
			return args[0]
		}
		if s, ok := args[1].(string); ok {
			var b []value
			for i := 0; i < len(s); i++ {
				b = append(b, int64(s[i]))
			}
			args[1] = b
		}
		if _, ok := args[1].(*Term); ok {
			panic(cut{"append of symbolic string to []byte"})
		}
		return append(args[0].([]value), args[1].([]value)...)
	case "copy":
		src := args[1]
		if s, ok := src.(string); ok {
			var b []value
			for i := 0; i < len(s); i++ {
				b = append(b, int64(s[i]))
			}
			src = b
		}
		return int64(copy(args[0].([]value), src.([]value)))
	case "close":
		m.chanClose(args[0].(*chanV))
		return nil
	case "delete":
		m.mapDelete(args[0].(*mapV), args[1])
		return nil
	case "print", "println":
		return nil
	case "len":
		switch x := args[0].(type) {
		case string:
			return int64(len(x))
		case *Term:
			return fromTerm(mkLen(x))
		case array:
			return int64(len(x))
		case *value:
			return int64(len((*x).(array)))
		case []value:
			return int64(len(x))
		case *mapV:
			if x == nil {
				return int64(0)
			}
			return int64(len(x.keys))
		case *chanV:
			return int64(len(x.buf))
		case *runesV:
			return &runeCount{s: x.s}
		default:
			panic(fmt.Sprintf("len: illegal operand: %T", x))
		}
	case "cap":
		switch x := args[0].(type) {
		case array:
			return int64(cap(x))
		case *value:
			return int64(cap((*x).(array)))
		case []value:
			return int64(cap(x))
		case *chanV:
			return x.capacity
		default:
			panic(fmt.Sprintf("cap: illegal operand: %T", x))
		}
	case "min", "max":
		r := args[0]
		for _, a := range args[1:] {
			if isSym(r) || isSym(a) {
				panic(cut{"min/max on symbolic values"})
			}
			switch av := a.(type) {
			case int64:
				if (fn.Name() == "min") == (av < r.(int64)) {
					r = av
				}
			case string:
				if (fn.Name() == "min") == (av < r.(string)) {
					r = av
				}
			case float64:
				if (fn.Name() == "min") == (av < r.(float64)) {
					r = av
				}
			}
		}
		return r
	case "clear":
		switch x := args[0].(type) {
		case *mapV:
			if x != nil {
				x.keys, x.vals = nil, nil
			}
		}
		return nil
	case "panic":
		panic(targetPanic{args[0]})
	case "recover":
		return m.doRecover(caller)
	case "ssa:wrapnilchk":
		recv := args[0]
		if p, ok := recv.(*value); ok && p == nil {
			panic(m.runtimeError(fmt.Sprintf("value method %s.%s called using nil pointer", toString(args[1]), toString(args[2]))))
		}
		return recv
	}
	panic(fmt.Sprintf("unknown built-in: %s", fn.Name()))
}

// ---------- conversions ----------

func (m *machine) conv(tDst, tSrc types.Type, x value) value {
	ut_src := tSrc.Underlying()
	ut_dst := tDst.Underlying()

	switch ud := ut_dst.(type) {
	case *types.Signature, *types.Pointer, *types.Chan, *types.Map, *types.Struct, *types.Interface, *types.Array:
		return x
	case *types.Slice:
		// string -> []byte / []rune ; or named slice conversions
		if isStringType(ut_src) {
			elem := ud.Elem().Underlying().(*types.Basic)
			switch elem.Kind() {
			case types.Byte:
				switch s := x.(type) {
				case string:
					b := make([]value, len(s))
					for i := 0; i < len(s); i++ {
						b[i] = int64(s[i])
					}
					return b
				}
				panic(cut{"[]byte(symbolic string)"})
			case types.Rune:
				switch s := x.(type) {
				case string:
					var r []value
					for _, c := range s {
						r = append(r, int64(c))
					}
					if r == nil {
						r = []value{}
					}
					return r
				case *Term:
					return m.runesOf(s)
				}
			}
		}
		return x
	case *types.Basic:
		if ud.Info()&types.IsString != 0 {
			// to string
			switch us := ut_src.(type) {
			case *types.Basic:
				if us.Info()&types.IsInteger != 0 {
					switch xv := x.(type) {
					case int64:
						return string(rune(xv))
					case *runeStr:
						return fromTerm(xv.enc)
					}
					panic(cut{"string(symbolic integer)"})
				}
				return x // string -> string
			case *types.Slice:
				if rv, ok := x.(*runesV); ok {
					return fromTerm(rv.s)
				}
				elem := us.Elem().Underlying().(*types.Basic)
				sl := x.([]value)
				switch elem.Kind() {
				case types.Byte:
					b := make([]byte, len(sl))
					for i, e := range sl {
						c, ok := e.(int64)
						if !ok {
							panic(cut{"string([]byte) with symbolic bytes"})
						}
						b[i] = byte(c)
					}
					return string(b)
				case types.Rune:
					// runes may be concrete or runeStr
					allConcrete := true
					for _, e := range sl {
						if _, ok := e.(int64); !ok {
							allConcrete = false
						}
					}
					if allConcrete {
						r := make([]rune, len(sl))
						for i, e := range sl {
							r[i] = rune(e.(int64))
						}
						return string(r)
					}
					var parts []*Term
					for _, e := range sl {
						switch e := e.(type) {
						case int64:
							parts = append(parts, mkStr(string(rune(e))))
						case *runeStr:
							parts = append(parts, e.enc)
						default:
							panic(cut{"string([]rune) with unsupported element"})
						}
					}
					return fromTerm(mkConcat(parts...))
				}
			}
			return x
		}
		if ud.Info()&types.IsInteger != 0 {
			k, _ := intKindOf(ut_dst)
			switch xv := x.(type) {
			case int64:
				return wrapConcrete(k, xv)
			case float64:
				if math.IsNaN(xv) || math.IsInf(xv, 0) {
					return int64(math.MinInt64)
				}
				return wrapConcrete(k, int64(xv))
			case *Term:
				if xv.Sort == SInt {
					return fromTerm(wrapInt(xv, k.bits, k.signed))
				}
				panic(cut{"float -> int conversion of symbolic value"})
			case *runeStr:
				return xv
			case *value:
				return x // unsafe.Pointer -> uintptr (not expected)
			}
		}
		if ud.Info()&types.IsFloat != 0 {
			switch xv := x.(type) {
			case int64:
				if k, _ := intKindOf(ut_src); !k.signed && k.bits == 64 {
					return float64(uint64(xv))
				}
				if ud.Kind() == types.Float32 {
					return float64(float32(xv))
				}
				return float64(xv)
			case float64:
				if ud.Kind() == types.Float32 {
					return float64(float32(xv))
				}
				return xv
			case *Term:
				if xv.Sort == SF64 {
					return xv
				}
				return rawApp("f64_of_int", SF64, xv)
			}
		}
		if ud.Info()&types.IsBoolean != 0 {
			return x
		}
		if ud.Kind() == types.UnsafePointer {
			return x
		}
	}
	panic(fmt.Sprintf("unsupported conversion: %s -> %s (%T)", tSrc, tDst, x))
}

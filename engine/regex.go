package main

// regexp by template: the pattern is read from the current source; only the
// shapes used by the library are given symbolic semantics. The evaluator is
// generic over concrete and symbolic strings and is compared with the real
// regexp package on all short strings at every run (selfTestRegex).

import (
	"fmt"
	"regexp"
	"regexp/syntax"
	"strings"
)

type regexTemplate struct {
	pattern string
	re      *regexp.Regexp
	kind    string // "option" or "split"
	// option template: ^(p1|p2..)([^C2]+)(.*?)$
	prefixes []string // priority order
	min2     int      // minimal length of group 2 (1 for '+', 0 for '*')
	excl2    []byte   // characters excluded from group 2
	excl3    []byte   // characters excluded from group 3 ("\n" unless (?s))
	// split template: C+ ; set of separator bytes
	sepSet [256]bool
	err    string
}

func (w *world) template(pattern string) *regexTemplate {
	if t, ok := w.regexCache[pattern]; ok {
		return t
	}
	t := buildTemplate(pattern)
	w.regexCache[pattern] = t
	return t
}

func classExcluded(re *syntax.Regexp) ([]byte, bool) {
	// returns the set of bytes < 0x80 NOT matched by a one-character regexp,
	// requiring that everything >= 0x80 is matched.
	switch re.Op {
	case syntax.OpAnyChar:
		return nil, true
	case syntax.OpAnyCharNotNL:
		return []byte{'\n'}, true
	case syntax.OpCharClass:
		in := func(r rune) bool {
			for i := 0; i+1 < len(re.Rune); i += 2 {
				if re.Rune[i] <= r && r <= re.Rune[i+1] {
					return true
				}
			}
			return false
		}
		if !in(0x80) || !in(0xfffd) || !in(0x10ffff) || !in(0x7ff) || !in(0x800) {
			return nil, false
		}
		var ex []byte
		for b := 0; b < 0x80; b++ {
			if !in(rune(b)) {
				ex = append(ex, byte(b))
			}
		}
		if len(ex) > 4 {
			return nil, false
		}
		return ex, true
	}
	return nil, false
}

func literalAlternatives(re *syntax.Regexp) ([]string, bool) {
	// priority-ordered list of literal strings a sub-regexp can match
	switch re.Op {
	case syntax.OpLiteral:
		return []string{string(re.Rune)}, true
	case syntax.OpEmptyMatch:
		return []string{""}, true
	case syntax.OpCapture:
		return literalAlternatives(re.Sub[0])
	case syntax.OpQuest:
		sub, ok := literalAlternatives(re.Sub[0])
		if !ok {
			return nil, false
		}
		if re.Flags&syntax.NonGreedy != 0 {
			return append([]string{""}, sub...), true
		}
		return append(sub, ""), true
	case syntax.OpConcat:
		res := []string{""}
		for _, s := range re.Sub {
			alts, ok := literalAlternatives(s)
			if !ok {
				return nil, false
			}
			var next []string
			for _, a := range res {
				for _, b := range alts {
					next = append(next, a+b)
				}
			}
			res = next
			if len(res) > 8 {
				return nil, false
			}
		}
		return res, true
	case syntax.OpAlternate:
		var res []string
		for _, s := range re.Sub {
			alts, ok := literalAlternatives(s)
			if !ok {
				return nil, false
			}
			res = append(res, alts...)
		}
		return res, true
	case syntax.OpCharClass:
		if len(re.Rune) == 2 && re.Rune[0] == re.Rune[1] {
			return []string{string(re.Rune[0])}, true
		}
	}
	return nil, false
}

func buildTemplate(pattern string) *regexTemplate {
	t := &regexTemplate{pattern: pattern}
	var err error
	t.re, err = regexp.Compile(pattern)
	if err != nil {
		t.err = "pattern does not compile: " + err.Error()
		return t
	}
	re, err := syntax.Parse(pattern, syntax.Perl)
	if err != nil {
		t.err = err.Error()
		return t
	}
	re = re.Simplify()
	// split template: C+
	if re.Op == syntax.OpPlus && re.Flags&syntax.NonGreedy == 0 && re.Sub[0].Op == syntax.OpCharClass {
		cc := re.Sub[0]
		ok := true
		for i := 0; i+1 < len(cc.Rune); i += 2 {
			for r := cc.Rune[i]; r <= cc.Rune[i+1]; r++ {
				if r >= 0x80 {
					ok = false
					break
				}
				t.sepSet[r] = true
			}
		}
		if ok {
			t.kind = "split"
			return t
		}
	}
	// option template
	if re.Op == syntax.OpConcat && len(re.Sub) == 5 &&
		re.Sub[0].Op == syntax.OpBeginText && re.Sub[4].Op == syntax.OpEndText &&
		re.Sub[1].Op == syntax.OpCapture && re.Sub[2].Op == syntax.OpCapture && re.Sub[3].Op == syntax.OpCapture {
		pre, ok1 := literalAlternatives(re.Sub[1])
		g2 := re.Sub[2].Sub[0]
		g3 := re.Sub[3].Sub[0]
		if ok1 && (g2.Op == syntax.OpPlus || g2.Op == syntax.OpStar) && g2.Flags&syntax.NonGreedy == 0 && g3.Op == syntax.OpStar {
			ex2, ok2 := classExcluded(g2.Sub[0])
			ex3, ok3 := classExcluded(g3.Sub[0])
			nonEmpty := true
			for _, p := range pre {
				if p == "" {
					nonEmpty = false
				}
			}
			if ok2 && ok3 && nonEmpty && len(ex2) >= 1 {
				// the suffix-closure argument needs group 3 to accept whatever group 2 stops at
				okStop := true
				for _, c := range ex2 {
					for _, d := range ex3 {
						if c == d {
							okStop = false
						}
					}
				}
				if okStop {
					t.kind = "option"
					t.prefixes, t.excl2, t.excl3 = pre, ex2, ex3
					if g2.Op == syntax.OpPlus {
						t.min2 = 1
					}
					return t
				}
			}
		}
	}
	t.err = "regular expression shape is not one the encoder knows: " + pattern
	return t
}

// matchConcrete evaluates the template on a concrete string (used by the self test).
func (t *regexTemplate) matchConcrete(s string) []string {
	for _, p := range t.prefixes {
		if !strings.HasPrefix(s, p) {
			continue
		}
		r := s[len(p):]
		j := 0
		for j < len(r) && strings.IndexByte(string(t.excl2), r[j]) < 0 {
			j++
		}
		g2, g3 := r[:j], r[j:]
		if len(g2) < t.min2 {
			continue
		}
		bad := false
		for i := 0; i < len(g3); i++ {
			if strings.IndexByte(string(t.excl3), g3[i]) >= 0 {
				bad = true
			}
		}
		if bad {
			continue
		}
		return []string{s, p, g2, g3}
	}
	return nil
}

func (t *regexTemplate) splitConcrete(s string) []string {
	if s == "" {
		return []string{""}
	}
	var parts []string
	i := 0
	start := 0
	for i < len(s) {
		if t.sepSet[s[i]] {
			j := i
			for j < len(s) && t.sepSet[s[j]] {
				j++
			}
			parts = append(parts, s[start:i])
			start = j
			i = j
		} else {
			i++
		}
	}
	parts = append(parts, s[start:])
	return parts
}

// selfTest compares the template evaluator with the real regexp on all strings
// up to length n over a small alphabet; returns number compared and first mismatch.
func (t *regexTemplate) selfTest(n int) (int, string) {
	alphabet := []byte{'-', '=', ':', '/', 'a', '\n', ' ', '\t'}
	count := 0
	var rec func(cur []byte) string
	rec = func(cur []byte) string {
		s := string(cur)
		count++
		switch t.kind {
		case "option":
			got := t.matchConcrete(s)
			want := t.re.FindStringSubmatch(s)
			if fmt.Sprint(got) != fmt.Sprint(want) || (got == nil) != (want == nil) {
				return fmt.Sprintf("%q: template %q real %q", s, got, want)
			}
		case "split":
			got := t.splitConcrete(s)
			want := t.re.Split(s, -1)
			if fmt.Sprintf("%q", got) != fmt.Sprintf("%q", want) {
				return fmt.Sprintf("%q: template %q real %q", s, got, want)
			}
		}
		if len(cur) >= n {
			return ""
		}
		for _, c := range alphabet {
			if r := rec(append(cur, c)); r != "" {
				return r
			}
		}
		return ""
	}
	return count, rec(nil)
}

// ---------- intrinsics ----------

func iRegexpMustCompile(m *machine, fr *frame, args []value) value {
	pat := concreteStr(args[0], "regexp pattern")
	c := value(&opaque{kind: "regexp", data: pat})
	return &c
}

func regexOf(m *machine, v value) *regexTemplate {
	p := v.(*value)
	if p == nil {
		panic(m.runtimeError("nil *regexp.Regexp"))
	}
	op := (*p).(*opaque)
	return m.w.template(op.data.(string))
}

func noneOf(s *Term, set []byte) *Term {
	var c []*Term
	for _, b := range set {
		c = append(c, mkNot(mkContains(s, mkStr(string([]byte{b})))))
	}
	return mkAnd(c...)
}

func iFindStringSubmatch(m *machine, fr *frame, args []value) value {
	t := regexOf(m, args[0])
	s, sc := strArg(args[1])
	if t.re != nil && sc {
		return strSlice(t.re.FindStringSubmatch(s.S))
	}
	if t.kind != "option" {
		panic(cut{"INCONCLUSIVE regex: " + t.err})
	}
	type tail struct{ g2, g3 *Term }
	decompose := func(r *Term) tail {
		g2, g3 := m.splitAtFirstOf(r, t.excl2)
		return tail{g2, g3}
	}
	for _, p := range t.prefixes {
		r, ok := m.cutPrefix(s, mkStr(p))
		if !ok {
			continue
		}
		d := decompose(r)
		cond := mkAnd(mkCmp(">=", mkLen(d.g2), mkInt(int64(t.min2))), noneOf(d.g3, t.excl3))
		if m.branch(cond) {
			return []value{fromTerm(s), p, fromTerm(d.g2), fromTerm(d.g3)}
		}
	}
	return []value(nil)
}

func iRegexpSplit(m *machine, fr *frame, args []value) value {
	t := regexOf(m, args[0])
	s, sc := strArg(args[1])
	n := asInt64(args[2])
	if t.re != nil && sc {
		return strSlice(t.re.Split(s.S, int(n)))
	}
	if t.kind != "split" || n >= 0 {
		panic(cut{"INCONCLUSIVE regex: " + t.err + " (Split)"})
	}
	sepRe := rePlus(reByteSet(func(b int) bool { return t.sepSet[b] }))
	wordCh := reByteSet(func(b int) bool { return !t.sepSet[b] })
	word0 := reStar(wordCh)
	word1 := rePlus(wordCh)
	if r, ok := m.splitSyntactic(t, s, word0); ok {
		return r
	}
	// s = w0 sep1 w1 ... sepk wk ; fork on k
	if m.branch(mkStrEq(s, mkStr(""))) {
		return []value{""}
	}
	for k := 0; k <= m.splitMax; k++ {
		var parts []*Term
		var words []*Term
		var conds []*Term
		for i := 0; i <= k; i++ {
			w := m.freshStr(fmt.Sprintf("w%d_%d", k, i))
			words = append(words, w)
			if i == 0 || i == k {
				conds = append(conds, mkInRe(w, word0))
			} else {
				conds = append(conds, mkInRe(w, word1))
			}
			parts = append(parts, w)
			if i < k {
				sp := m.freshStr(fmt.Sprintf("sep%d_%d", k, i))
				conds = append(conds, mkInRe(sp, sepRe))
				parts = append(parts, sp)
			}
		}
		conds = append(conds, mkStrEq(s, mkConcat(parts...)))
		// membership of s in the k-separator language decides this alternative
		var langParts []*Term
		for i := 0; i <= k; i++ {
			if i == 0 || i == k {
				langParts = append(langParts, word0)
			} else {
				langParts = append(langParts, word1)
			}
			if i < k {
				langParts = append(langParts, sepRe)
			}
		}
		if m.branch(mkInRe(s, reConcat(langParts...))) {
			for _, c := range conds {
				m.assume(c)
			}
			out := make([]value, len(words))
			for i, w := range words {
				out[i] = fromTerm(w)
			}
			return out
		}
	}
	panic(cut{fmt.Sprintf("regexp.Split into more than %d parts (outside bound)", m.splitMax+1)})
}

// splitAtFirstOf decomposes r = g2 ++ g3 where g2 contains none of the bytes
// in set and g3 is empty or starts with one of them. Done syntactically where
// the structure of r allows, with fresh variables and a word equation otherwise.
func (m *machine) splitAtFirstOf(r *Term, set []byte) (*Term, *Term) {
	mk := "split:" + string(set) + ":" + r.key
	if c, ok := m.memo[mk]; ok {
		p := c.([2]*Term)
		return p[0], p[1]
	}
	a, b := m.splitAtFirstOf1(r, set)
	m.memo[mk] = [2]*Term{a, b}
	return a, b
}

func (m *machine) splitAtFirstOf1(r *Term, set []byte) (*Term, *Term) {
	parts := concatParts(r)
	var acc []*Term
	for i, p := range parts {
		if p.Op == "cs" {
			if idx := strings.IndexAny(p.S, string(set)); idx >= 0 {
				g2 := mkConcat(append(append([]*Term{}, acc...), mkStr(p.S[:idx]))...)
				g3 := mkConcat(append([]*Term{mkStr(p.S[idx:])}, parts[i+1:]...)...)
				return g2, g3
			}
			acc = append(acc, p)
			continue
		}
		free := true
		for _, b := range set {
			if !m.known[mkNot(mkContains(p, mkStr(string([]byte{b})))).key] {
				free = false
			}
		}
		if free {
			acc = append(acc, p)
			continue
		}
		rest := mkConcat(parts[i:]...)
		if len(set) == 1 {
			// case split instead of a disjunctive word equation: either the
			// separator does not occur at all, or it occurs and the part before
			// its first occurrence is free of it
			sep := mkStr(string(set))
			if !m.branch(mkContains(rest, sep)) {
				return mkConcat(append(append([]*Term{}, acc...), rest)...), mkStr("")
			}
			g2 := m.freshStr("re_name")
			tail := m.freshStr("re_tail")
			g3 := mkConcat(sep, tail)
			m.assume(mkStrEq(rest, mkConcat(g2, g3)))
			m.noteFold(mkConcat(g2, g3), rest)
			m.assume(mkNot(mkContains(g2, sep)))
			return mkConcat(append(append([]*Term{}, acc...), g2)...), g3
		}
		g2 := m.freshStr("re_name")
		g3 := m.freshStr("re_rest")
		m.assume(mkStrEq(rest, mkConcat(g2, g3)))
		m.noteFold(mkConcat(g2, g3), rest)
		for _, b := range set {
			m.assume(mkNot(mkContains(g2, mkStr(string([]byte{b})))))
		}
		var starts []*Term
		starts = append(starts, mkStrEq(g3, mkStr("")))
		for _, b := range set {
			starts = append(starts, mkPrefixOf(mkStr(string([]byte{b})), g3))
		}
		m.assume(mkOr(starts...))
		return mkConcat(append(append([]*Term{}, acc...), g2)...), g3
	}
	return mkConcat(acc...), mkStr("")
}

// splitSyntactic splits a concatenation of constants and symbolic pieces that
// are free of separator characters without introducing fresh variables.
func (m *machine) splitSyntactic(t *regexTemplate, s *Term, word0 *Term) (value, bool) {
	type piece struct {
		sep  bool
		term *Term
	}
	var pieces []piece
	for _, p := range concatParts(s) {
		if p.Op == "cs" {
			i := 0
			for i < len(p.S) {
				j := i
				if t.sepSet[p.S[i]] {
					for j < len(p.S) && t.sepSet[p.S[j]] {
						j++
					}
					pieces = append(pieces, piece{sep: true})
				} else {
					for j < len(p.S) && !t.sepSet[p.S[j]] {
						j++
					}
					pieces = append(pieces, piece{term: mkStr(p.S[i:j])})
				}
				i = j
			}
			continue
		}
		if !m.branch(mkInRe(p, word0)) {
			return nil, false
		}
		if m.branch(mkStrEq(p, mkStr(""))) {
			continue
		}
		pieces = append(pieces, piece{term: p})
	}
	if len(pieces) == 0 {
		return []value{""}, true
	}
	var parts []value
	var cur []*Term
	prevSep := false
	for i, pc := range pieces {
		if pc.sep {
			if !prevSep {
				parts = append(parts, fromTerm(mkConcat(cur...)))
				cur = nil
			}
			prevSep = true
			if i == len(pieces)-1 {
				parts = append(parts, "")
			}
			continue
		}
		prevSep = false
		cur = append(cur, pc.term)
	}
	if !prevSep {
		parts = append(parts, fromTerm(mkConcat(cur...)))
	}
	return parts, true
}

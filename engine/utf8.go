package main

// UTF-8 aware operations on symbolic strings.

import (
	"fmt"
	"go/token"
	"unicode/utf8"
)

// runeCount is len([]rune(s)) of a symbolic string, usable in comparisons
// with small concrete numbers.
type runeCount struct{ s *Term }

// runesAtLeast decides whether s has at least n characters (forking).
func (m *machine) runesAtLeast(s *Term, n int64) bool {
	for i := int64(0); i < n; i++ {
		if m.branch(mkStrEq(s, mkStr(""))) {
			return false
		}
		_, rest := m.firstCharAny(s)
		s = rest
	}
	return true
}

func (m *machine) runeCountCmp(op token.Token, rc *runeCount, other value, swapped bool) value {
	k, ok := other.(int64)
	if !ok || k < 0 || k > 8 {
		panic(cut{"rune count compared with a symbolic or large number"})
	}
	if swapped {
		switch op {
		case token.LSS:
			op = token.GTR
		case token.LEQ:
			op = token.GEQ
		case token.GTR:
			op = token.LSS
		case token.GEQ:
			op = token.LEQ
		}
	}
	switch op {
	case token.GTR:
		return m.runesAtLeast(rc.s, k+1)
	case token.GEQ:
		return m.runesAtLeast(rc.s, k)
	case token.LSS:
		return !m.runesAtLeast(rc.s, k)
	case token.LEQ:
		return !m.runesAtLeast(rc.s, k+1)
	case token.EQL:
		return m.runesAtLeast(rc.s, k) && !m.runesAtLeast(rc.s, k+1)
	case token.NEQ:
		return !(m.runesAtLeast(rc.s, k) && !m.runesAtLeast(rc.s, k+1))
	}
	panic(cut{"unsupported operator on rune count"})
}

var (
	reAscii = reRange(0x00, 0x7f)
	reCont  = reRange(0x80, 0xbf)
	reTwo   = reConcat(reRange(0xc2, 0xdf), reCont)
	reThree = reUnion(
		reConcat(reRange(0xe0, 0xe0), reRange(0xa0, 0xbf), reCont),
		reConcat(reRange(0xe1, 0xec), reCont, reCont),
		reConcat(reRange(0xed, 0xed), reRange(0x80, 0x9f), reCont),
		reConcat(reRange(0xee, 0xef), reCont, reCont))
	reFour = reUnion(
		reConcat(reRange(0xf0, 0xf0), reRange(0x90, 0xbf), reCont, reCont),
		reConcat(reRange(0xf1, 0xf3), reCont, reCont, reCont),
		reConcat(reRange(0xf4, 0xf4), reRange(0x80, 0x8f), reCont, reCont))
	reUTF8Char = reUnion(reAscii, reTwo, reThree, reFour)
	reUTF8     = reStar(reUTF8Char)
	// the bound of the encoding: characters of one or two bytes
	reUTF8Short = reStar(reUnion(reAscii, reTwo))
)

// firstChar splits s (known non-empty) into its first UTF-8 character and the
// rest, forking on the encoded length. Invalid leading bytes are outside the bound.
func (m *machine) firstChar(s *Term, maxBytes int) (*Term, *Term) {
	ck := fmt.Sprintf("%d:%s", maxBytes, s.key)
	if m.charCache == nil {
		m.charCache = map[string][2]*Term{}
	}
	if c, ok := m.charCache[ck]; ok {
		return c[0], c[1]
	}
	c, r := m.firstChar1(s, maxBytes)
	m.charCache[ck] = [2]*Term{c, r}
	return c, r
}

func (m *machine) firstChar1(s *Term, maxBytes int) (*Term, *Term) {
	// a constant leading part decides the first character syntactically
	if ps := concatParts(s); len(ps) > 0 && ps[0].Op == "cs" && ps[0].S != "" {
		r, n := utf8.DecodeRuneInString(ps[0].S)
		if r != utf8.RuneError || n > 1 {
			rest := mkConcat(append([]*Term{mkStr(ps[0].S[n:])}, ps[1:]...)...)
			return mkStr(ps[0].S[:n]), rest
		}
	}
	classes := []*Term{reAscii, reTwo, reThree, reFour}
	for n := 1; n <= maxBytes; n++ {
		c := m.freshStr(fmt.Sprintf("ch%d", n))
		rest := m.freshStr("chrest")
		// condition: s starts with a valid n-byte sequence
		cond := mkInRe(s, reConcat(classes[n-1], reStar(reRange(0, 255))))
		if s.Op == "cs" {
			// concrete: decide natively
			panic("firstChar on concrete string")
		}
		if m.branch(cond) {
			m.assume(mkStrEq(s, mkConcat(c, rest)))
			m.assume(mkIntEq(mkLen(c), mkInt(int64(n))))
			m.noteFold(mkConcat(c, rest), s)
			return c, rest
		}
	}
	panic(cut{fmt.Sprintf("leading character is not a valid UTF-8 sequence of at most %d bytes (outside bound)", maxBytes)})
}

// explode implements strings.Split(s, "") for a symbolic s: one element per
// UTF-8 sequence, at most cfg.RunesMax elements, each of 1 or 2 bytes.
func (m *machine) explode(s *Term) value {
	var out []value
	rem := s
	for {
		if m.branch(mkStrEq(rem, mkStr(""))) {
			break
		}
		if len(out) >= m.runesMax {
			panic(cut{fmt.Sprintf("string exploded into more than %d characters (outside bound)", m.runesMax)})
		}
		if rem.Op == "cs" {
			for _, r := range rem.S {
				out = append(out, string(r))
			}
			break
		}
		c, rest := m.firstChar(rem, 2)
		out = append(out, fromTerm(c))
		rem = rest
	}
	if out == nil {
		out = []value{}
	}
	return out
}

// runesOf implements []rune(s) lazily for a symbolic string, assuming valid UTF-8.
func (m *machine) runesOf(s *Term) value {
	if !m.known["utf8:"+s.key] {
		m.known["utf8:"+s.key] = true
		if !m.branch(mkInRe(s, reUTF8Short)) {
			panic(cut{"string converted to []rune contains a UTF-8 sequence longer than 2 bytes or invalid UTF-8 (outside bound)"})
		}
	}
	return &runesV{s: s}
}

func (m *machine) runesIndexAddr(r *runesV, idx value) value {
	i, ok := idx.(int64)
	if !ok {
		panic(cut{"symbolic index into lazily decoded runes"})
	}
	s := r.s
	for k := int64(0); ; k++ {
		if m.branch(mkStrEq(s, mkStr(""))) {
			panic(m.runtimeError(fmt.Sprintf("index out of range [%d] with length %d", i, k)))
		}
		c, rest := m.firstCharAny(s)
		if k == i {
			cell := value(&runeStr{enc: c})
			return &cell
		}
		s = rest
		if k > 8 {
			panic(cut{"index into lazily decoded runes too large"})
		}
	}
}

func (m *machine) firstCharAny(s *Term) (*Term, *Term) {
	if s.Op == "cs" {
		for _, r := range s.S {
			c := string(r)
			return mkStr(c), mkStr(s.S[len(c):])
		}
	}
	return m.firstChar(s, 2)
}

func (m *machine) runesSlice(r *runesV, lo, hi value) value {
	if hi != nil {
		panic(cut{"upper bound on lazily decoded runes"})
	}
	l := int64(0)
	if lo != nil {
		var ok bool
		l, ok = lo.(int64)
		if !ok {
			panic(cut{"symbolic bound on lazily decoded runes"})
		}
	}
	s := r.s
	for k := int64(0); k < l; k++ {
		if m.branch(mkStrEq(s, mkStr(""))) {
			panic(m.runtimeError("slice bounds out of range"))
		}
		_, rest := m.firstCharAny(s)
		s = rest
	}
	return &runesV{s: s}
}

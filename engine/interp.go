package main

// SSA interpreter over concrete-or-symbolic values (derived in structure from
// golang.org/x/tools/go/ssa/interp, rewritten for symbolic leaves).

import (
	"fmt"
	"go/token"
	"go/types"
	"strings"

	"golang.org/x/tools/go/ssa"
)

// control-flow panics used by the engine
type cut struct{ reason string }         // path abandoned (unsupported / outside bound)
type pathEnd struct{ reason string }     // path ended normally (infeasible assumption, exit)
type targetPanic struct{ v value }       // Go-level panic in the target program
type exitPanic struct{ code value }      // os.Exit / exitFn reached
type unwindOverflow struct{ why string } // step / decision budget exceeded

func (p targetPanic) String() string { return toString(p.v) }

type deferred struct {
	fn    value
	args  []value
	instr *ssa.Defer
	tail  *deferred
}

type frame struct {
	m                *machine
	g                *goroutine
	caller           *frame
	fn               *ssa.Function
	block, prevBlock *ssa.BasicBlock
	env              map[ssa.Value]value
	locals           []value
	defers           *deferred
	result           value
	panicking        bool
	panic            interface{}
	phitemps         []value
}

func (fr *frame) get(key ssa.Value) value {
	switch key := key.(type) {
	case nil:
		return nil
	case *ssa.Function, *ssa.Builtin:
		return key
	case *ssa.Const:
		return constValue(key)
	case *ssa.Global:
		return fr.m.globalAddr(key)
	}
	if r, ok := fr.env[key]; ok {
		return r
	}
	panic(fmt.Sprintf("get: no value for %T: %v in %s", key, key.Name(), fr.fn))
}

func (fr *frame) runDefer(d *deferred) {
	var ok bool
	defer func() {
		if !ok {
			r := recover()
			if isEnginePanic(r) {
				panic(r)
			}
			fr.panicking = true
			fr.panic = r
		}
	}()
	fr.m.call(fr, d.instr.Pos(), d.fn, d.args)
	ok = true
}

func isEnginePanic(r interface{}) bool {
	switch r.(type) {
	case cut, pathEnd, exitPanic, unwindOverflow, abortRun, goroutineKilled:
		return true
	}
	return false
}

func (fr *frame) runDefers() {
	for d := fr.defers; d != nil; d = d.tail {
		fr.runDefer(d)
	}
	fr.defers = nil
	if fr.panicking {
		panic(fr.panic)
	}
}

func (m *machine) lookupMethod(typ types.Type, meth *types.Func) *ssa.Function {
	return m.w.prog.LookupMethod(typ, meth.Pkg(), meth.Name())
}

func (m *machine) visitInstr(fr *frame, instr ssa.Instruction) (jump bool, ret bool) {
	m.steps++
	if m.steps > m.w.cfg.MaxSteps {
		panic(unwindOverflow{fmt.Sprintf("more than %d instructions in one run (at %s)", m.w.cfg.MaxSteps, m.w.prog.Fset.Position(instr.Pos()))})
	}
	switch instr := instr.(type) {
	case *ssa.DebugRef:
	case *ssa.UnOp:
		fr.env[instr] = m.unop(fr, instr, fr.get(instr.X))
	case *ssa.BinOp:
		fr.env[instr] = m.binop(instr.Op, instr.X.Type(), fr.get(instr.X), fr.get(instr.Y))
	case *ssa.Call:
		fn, args := m.prepareCall(fr, &instr.Call)
		fr.env[instr] = m.call(fr, instr.Pos(), fn, args)
	case *ssa.ChangeInterface:
		fr.env[instr] = fr.get(instr.X)
	case *ssa.ChangeType:
		fr.env[instr] = fr.get(instr.X)
	case *ssa.Convert:
		fr.env[instr] = m.conv(instr.Type(), instr.X.Type(), fr.get(instr.X))
	case *ssa.MakeInterface:
		fr.env[instr] = iface{t: instr.X.Type(), v: fr.get(instr.X)}
	case *ssa.Extract:
		fr.env[instr] = fr.get(instr.Tuple).(tuple)[instr.Index]
	case *ssa.Slice:
		fr.env[instr] = m.slice(instr, fr.get(instr.X), fr.get(instr.Low), fr.get(instr.High), fr.get(instr.Max))
	case *ssa.Return:
		switch len(instr.Results) {
		case 0:
		case 1:
			fr.result = fr.get(instr.Results[0])
		default:
			var res []value
			for _, r := range instr.Results {
				res = append(res, fr.get(r))
			}
			fr.result = tuple(res)
		}
		fr.block = nil
		return false, true
	case *ssa.RunDefers:
		fr.runDefers()
	case *ssa.Panic:
		panic(targetPanic{fr.get(instr.X)})
	case *ssa.Send:
		m.chanSend(fr, fr.get(instr.Chan).(*chanV), fr.get(instr.X))
	case *ssa.Store:
		addr := fr.get(instr.Addr).(*value)
		if addr == nil {
			panic(m.runtimeError("invalid memory address or nil pointer dereference"))
		}
		store(deref(instr.Addr.Type()), addr, fr.get(instr.Val))
	case *ssa.If:
		succ := 1
		if m.truth(fr.get(instr.Cond)) {
			succ = 0
		}
		fr.prevBlock, fr.block = fr.block, fr.block.Succs[succ]
		return true, false
	case *ssa.Jump:
		fr.prevBlock, fr.block = fr.block, fr.block.Succs[0]
		return true, false
	case *ssa.Defer:
		fn, args := m.prepareCall(fr, &instr.Call)
		defers := &fr.defers
		*defers = &deferred{fn: fn, args: args, instr: instr, tail: *defers}
	case *ssa.Go:
		fn, args := m.prepareCall(fr, &instr.Call)
		m.spawn(fr, instr, fn, args)
	case *ssa.MakeChan:
		fr.env[instr] = m.makeChan(fr.get(instr.Size))
	case *ssa.Alloc:
		var addr *value
		if instr.Heap {
			addr = new(value)
			fr.env[instr] = addr
		} else {
			addr = fr.env[instr].(*value)
		}
		*addr = zero(deref(instr.Type()))
	case *ssa.MakeSlice:
		capV := fr.get(instr.Cap)
		if _, sym := capV.(*Term); sym {
			// a symbolic capacity only affects allocation, not the visible value
			capV = fr.get(instr.Len)
		}
		n := asInt64(capV)
		if n < 0 || n > 1<<24 {
			panic(m.runtimeError("makeslice: cap out of range"))
		}
		sl := make([]value, n)
		tElt := instr.Type().Underlying().(*types.Slice).Elem()
		for i := range sl {
			sl[i] = zero(tElt)
		}
		fr.env[instr] = sl[:asInt64(fr.get(instr.Len))]
	case *ssa.MakeMap:
		fr.env[instr] = m.newMap(instr.Type().Underlying().(*types.Map).Key())
	case *ssa.Range:
		fr.env[instr] = m.rangeIter(fr.get(instr.X), instr.X.Type())
	case *ssa.Next:
		fr.env[instr] = fr.get(instr.Iter).(iter).next(m)
	case *ssa.FieldAddr:
		p := fr.get(instr.X).(*value)
		if p == nil {
			panic(m.runtimeError("invalid memory address or nil pointer dereference"))
		}
		fr.env[instr] = &(*p).(structure)[instr.Field]
	case *ssa.Field:
		fr.env[instr] = fr.get(instr.X).(structure)[instr.Field]
	case *ssa.IndexAddr:
		x := fr.get(instr.X)
		idx := fr.get(instr.Index)
		switch x := x.(type) {
		case []value:
			i := m.concreteIndex(idx, int64(len(x)))
			fr.env[instr] = &x[i]
		case *value:
			if x == nil {
				panic(m.runtimeError("invalid memory address or nil pointer dereference"))
			}
			a := (*x).(array)
			i := m.concreteIndex(idx, int64(len(a)))
			fr.env[instr] = &a[i]
		case *runesV:
			fr.env[instr] = m.runesIndexAddr(x, idx)
		default:
			panic(fmt.Sprintf("unexpected x type in IndexAddr: %T", x))
		}
	case *ssa.Index:
		x := fr.get(instr.X)
		idx := fr.get(instr.Index)
		switch x := x.(type) {
		case array:
			fr.env[instr] = x[m.concreteIndex(idx, int64(len(x)))]
		case string:
			if it, ok := idx.(*Term); ok {
				fr.env[instr] = m.strIndex(mkStr(x), it)
			} else {
				i := idx.(int64)
				if i < 0 || i >= int64(len(x)) {
					panic(m.runtimeError(fmt.Sprintf("index out of range [%d] with length %d", i, len(x))))
				}
				fr.env[instr] = int64(x[i])
			}
		case *Term:
			fr.env[instr] = m.strIndex(x, toTerm(idx))
		default:
			panic(fmt.Sprintf("unexpected x type in Index: %T", x))
		}
	case *ssa.Lookup:
		fr.env[instr] = m.lookup(instr, fr.get(instr.X), fr.get(instr.Index))
	case *ssa.MapUpdate:
		mp := fr.get(instr.Map).(*mapV)
		if mp == nil {
			panic(m.runtimeError("assignment to entry in nil map"))
		}
		m.mapInsert(mp, fr.get(instr.Key), fr.get(instr.Value))
	case *ssa.TypeAssert:
		fr.env[instr] = m.typeAssert(instr, fr.get(instr.X).(iface))
	case *ssa.MakeClosure:
		var bindings []value
		for _, b := range instr.Bindings {
			bindings = append(bindings, fr.get(b))
		}
		fr.env[instr] = &closure{instr.Fn.(*ssa.Function), bindings}
	case *ssa.Select:
		fr.env[instr] = m.doSelect(fr, instr)
	case *ssa.SliceToArrayPointer:
		panic(cut{"unsupported instruction SliceToArrayPointer"})
	default:
		panic(cut{fmt.Sprintf("unsupported instruction %T", instr)})
	}
	return false, false
}

func (m *machine) concreteIndex(idx value, n int64) int64 {
	var i int64
	switch idx := idx.(type) {
	case int64:
		i = idx
	case *Term:
		// fork over the concrete length
		for k := int64(0); k < n; k++ {
			if m.branch(mkIntEq(idx, mkInt(k))) {
				return k
			}
		}
		panic(m.runtimeError("index out of range (symbolic index)"))
	default:
		panic(fmt.Sprintf("index of type %T", idx))
	}
	if i < 0 || i >= n {
		panic(m.runtimeError(fmt.Sprintf("index out of range [%d] with length %d", i, n)))
	}
	return i
}

func (m *machine) strIndex(s, i *Term) value {
	inb := mkAnd(mkCmp(">=", i, mkInt(0)), mkCmp("<", i, mkLen(s)))
	if !m.branch(inb) {
		panic(m.runtimeError("index out of range (string)"))
	}
	return fromTerm(mkToCode(mkAt(s, i)))
}

func (m *machine) prepareCall(fr *frame, call *ssa.CallCommon) (fn value, args []value) {
	v := fr.get(call.Value)
	if call.Method == nil {
		fn = v
	} else {
		recv := v.(iface)
		if recv.t == nil {
			panic(m.runtimeError("invalid memory address or nil pointer dereference (method on nil interface)"))
		}
		if op, ok := recv.v.(*opaque); ok {
			// method on an engine-level object
			fn = &opaqueMethod{obj: op, name: call.Method.Name()}
		} else if f := m.lookupMethod(recv.t, call.Method); f == nil {
			panic(fmt.Sprintf("method set for dynamic type %v does not contain %s", recv.t, call.Method))
		} else {
			fn = f
		}
		args = append(args, recv.v)
	}
	for _, arg := range call.Args {
		args = append(args, fr.get(arg))
	}
	return
}

type opaqueMethod struct {
	obj  *opaque
	name string
}

func (m *machine) call(caller *frame, callpos token.Pos, fn value, args []value) value {
	switch fn := fn.(type) {
	case *ssa.Function:
		if fn == nil {
			panic(m.runtimeError("invalid memory address or nil pointer dereference (nil func)"))
		}
		return m.callSSA(caller, callpos, fn, args, nil)
	case *closure:
		if fn == nil {
			panic(m.runtimeError("invalid memory address or nil pointer dereference (nil func)"))
		}
		return m.callSSA(caller, callpos, fn.Fn, args, fn.Env)
	case *ssa.Builtin:
		return m.callBuiltin(caller, callpos, fn, args)
	case *opaqueMethod:
		return m.callOpaqueMethod(caller, fn, args)
	}
	panic(fmt.Sprintf("cannot call %T", fn))
}

func (m *machine) callSSA(caller *frame, callpos token.Pos, fn *ssa.Function, args []value, env []value) value {
	fr := &frame{m: m, caller: caller, fn: fn}
	if caller != nil {
		fr.g = caller.g
	}
	if fn.Parent() == nil {
		name := fn.String()
		if fn.Pkg != nil && m.w.modulePkgs[fn.Pkg] {
			if h := harnessAPI[fn.Name()]; h != nil {
				return h(m, fr, args)
			}
		} else if fn.Pkg != nil && fn.Name() == "init" {
			return nil // initialisation of non-module packages is not executed
		}
		if ext := intrinsics[name]; ext != nil {
			m.intrinsicsUsed[name]++
			return ext(m, fr, args)
		}
		if !m.w.interpretable(fn) {
			panic(cut{"call to " + name + " is not modelled"})
		}
		if fn.Blocks == nil {
			panic(cut{"no code for function: " + name})
		}
	} else if fn.Blocks == nil {
		panic(cut{"no code for function: " + fn.String()})
	}
	if !m.w.interpretable(fn) {
		panic(cut{"call to " + fn.String() + " is not modelled"})
	}
	m.funcsRun[fn]++
	m.depth++
	if m.depth > 400 {
		panic(unwindOverflow{"call depth > 400 at " + fn.String()})
	}
	defer func() { m.depth-- }()

	fr.env = make(map[ssa.Value]value)
	fr.block = fn.Blocks[0]
	fr.locals = make([]value, len(fn.Locals))
	for i, l := range fn.Locals {
		fr.locals[i] = zero(deref(l.Type()))
		fr.env[l] = &fr.locals[i]
	}
	for i, p := range fn.Params {
		fr.env[p] = args[i]
	}
	for i, fv := range fn.FreeVars {
		fr.env[fv] = env[i]
	}
	for fr.block != nil {
		m.runFrame(fr)
	}
	return fr.result
}

func (m *machine) runFrame(fr *frame) {
	defer func() {
		if fr.block == nil {
			return
		}
		r := recover()
		if isEnginePanic(r) {
			panic(r)
		}
		if _, ok := r.(targetPanic); !ok {
			// engine bug or Go runtime error inside the engine: surface it
			if s, ok2 := r.(string); ok2 && strings.HasPrefix(s, "runtime error (target): ") {
				// fallthrough: treat as target panic
				r = targetPanic{iface{t: nil, v: s}}
			} else {
				panic(engineBug{r, m.where(fr)})
			}
		}
		fr.panicking = true
		fr.panic = r
		fr.runDefers()
		fr.block = fr.fn.Recover
		if fr.block == nil {
			// recovered, no named results: return zero value
			fr.result = zeroResults(fr.fn)
		}
	}()
	for {
		nonPhis := executePhis(fr)
		for _, instr := range nonPhis {
			jump, ret := m.visitInstr(fr, instr)
			if ret {
				return
			}
			if jump {
				break
			}
		}
	}
}

type engineBug struct {
	r     interface{}
	where string
}

func zeroResults(fn *ssa.Function) value {
	res := fn.Signature.Results()
	switch res.Len() {
	case 0:
		return nil
	case 1:
		return zero(res.At(0).Type())
	}
	return zero(res)
}

func (m *machine) where(fr *frame) string {
	var b strings.Builder
	for f := fr; f != nil; f = f.caller {
		b.WriteString(f.fn.String())
		b.WriteString(" <- ")
	}
	return b.String()
}

func executePhis(fr *frame) []ssa.Instruction {
	firstNonPhi := -1
	for i, instr := range fr.block.Instrs {
		if _, ok := instr.(*ssa.Phi); !ok {
			firstNonPhi = i
			break
		}
	}
	nonPhis := fr.block.Instrs[firstNonPhi:]
	if firstNonPhi > 0 {
		phis := fr.block.Instrs[:firstNonPhi]
		predIndex := -1
		for i, p := range fr.block.Preds {
			if p == fr.prevBlock {
				predIndex = i
				break
			}
		}
		fr.phitemps = fr.phitemps[:0]
		for _, phi := range phis {
			phi := phi.(*ssa.Phi)
			fr.phitemps = append(fr.phitemps, fr.get(phi.Edges[predIndex]))
		}
		for i, phi := range phis {
			fr.env[phi.(*ssa.Phi)] = fr.phitemps[i]
		}
	}
	return nonPhis
}

func (m *machine) doRecover(caller *frame) value {
	if caller != nil && !caller.panicking && caller.caller != nil && caller.caller.panicking {
		caller.caller.panicking = false
		p := caller.caller.panic
		caller.caller.panic = nil
		switch p := p.(type) {
		case targetPanic:
			return p.v
		default:
			return iface{t: types.Typ[types.String], v: fmt.Sprint(p)}
		}
	}
	return iface{}
}

// runtimeError builds the panic value for a Go runtime error in the target.
func (m *machine) runtimeError(msg string) targetPanic {
	return targetPanic{iface{t: types.Typ[types.String], v: "runtime error: " + msg}}
}

// truth decides a boolean value, forking when it is symbolic.
func (m *machine) truth(v value) bool {
	switch v := v.(type) {
	case bool:
		return v
	case *Term:
		return m.branch(v)
	}
	panic(fmt.Sprintf("truth of %T", v))
}

package main

import (
	"encoding/json"
	"fmt"
	"os"
	"path/filepath"
	"sort"
	"time"

	"golang.org/x/tools/go/ssa"
)

type ssaFn = ssa.Function

type evidence struct {
	Property     string
	Tier         string
	Seed         int
	Harnesses    []harnessReport
	Inconclusive []string
	KnownHits    []string
	Violations   []violation
	RegexNotes   []string
	NativeBuildS float64

	funcs       map[string]int
	intrinsics  map[string]int
	assumptions map[string]bool
	samples     []interface{}
	t0          time.Time
	verif       string
}

func (ev *evidence) addExplorer(x *explorer) {
	if ev.funcs == nil {
		ev.funcs, ev.intrinsics, ev.assumptions = map[string]int{}, map[string]int{}, map[string]bool{}
	}
	for f, n := range x.funcs {
		ev.funcs[f] += n
	}
	for f, n := range x.intrinsics {
		ev.intrinsics[f] += n
	}
	for a := range x.assumptions {
		ev.assumptions[a] = true
	}
	for _, s := range x.samples {
		if len(ev.samples) >= 12 {
			break
		}
		ev.samples = append(ev.samples, map[string]interface{}{
			"harness":   s.Harness,
			"decisions": traceString(s.Trace),
			"inputs":    modelString(s.Model),
			"end":       s.End,
			"asserts":   summarizeOutcomes(s.Asserts),
			"reach":     s.Reach,
		})
	}
}

func traceString(t []decision) string {
	b := make([]byte, 0, len(t))
	for _, d := range t {
		c := byte('0' + d.Choice%10)
		if d.Forced {
			c = map[int]byte{0: 'f', 1: 't'}[d.Choice%2]
		}
		b = append(b, c)
	}
	return string(b)
}

func (ev *evidence) totalPaths() (n int) {
	for _, h := range ev.Harnesses {
		n += h.Paths
	}
	return
}
func (ev *evidence) totalQueries() (n int64) {
	for _, h := range ev.Harnesses {
		n += h.Queries
	}
	return
}
func (ev *evidence) totalConcord() (n int) {
	for _, h := range ev.Harnesses {
		n += h.Concordance
	}
	return
}

func (ev *evidence) write() {
	states, trans := 0, 0
	proved := 0
	for _, h := range ev.Harnesses {
		states += h.Paths + h.Transitions
		trans += h.Transitions
		for _, st := range h.Asserts {
			proved += st["proved"]
		}
	}
	if states == 0 {
		states = 1
	}
	if trans == 0 {
		trans = 1
	}
	var fns []string
	for f := range ev.funcs {
		fns = append(fns, f)
	}
	sort.Strings(fns)
	var intr []string
	for f := range ev.intrinsics {
		intr = append(intr, f)
	}
	sort.Strings(intr)
	samples := ev.samples
	if len(samples) == 0 {
		samples = []interface{}{map[string]interface{}{"note": "no feasible path completed in this run"}}
	}
	var vio []interface{}
	for _, v := range ev.Violations {
		vio = append(vio, map[string]interface{}{"harness": v.Harness, "assertion": v.AssertID, "kind": v.Kind, "inputs": modelString(v.Model), "replay": v.ReplayPath, "found_by": v.Source})
	}
	assumptions := []string{
		"structural bounds are those written in the harness sources under /verif/harness (token count, option set, unwind limits); inputs outside them are outside the claim",
		"standard-library calls are modelled by the engine's intrinsics (strings, strconv, fmt, errors, sort, regexp-by-template, os.Getenv); each explored path is additionally replayed natively and compared (traces_validated_against_impl)",
		"strconv.ParseFloat is an uninterpreted function pair (pf_ok, pf_val); float64 values are their bit patterns",
		"one SMT character models one byte; models are restricted to code points <= 0xFF",
		"unsat answers of cvc5 / z3 are trusted (the first definite answer of the portfolio is taken)",
	}
	for a := range ev.assumptions {
		assumptions = append(assumptions, a)
	}
	sort.Strings(assumptions[5:])
	cov := map[string]interface{}{
		"states":                        states,
		"transitions":                   trans,
		"traces_validated_against_impl": ev.totalConcord(),
		"samples":                       samples,
		"paths":                         ev.totalPaths(),
		"solver_queries":                ev.totalQueries(),
		"solver_s":                      float64(solverStats.nanos) / 1e9,
		"solver_unknowns":               solverStats.unknowns,
		"assertions_proved":             proved,
		"harnesses":                     ev.Harnesses,
		"functions_encoded":             fns,
		"intrinsics_used":               intr,
		"regex_templates":               ev.RegexNotes,
		"inconclusive":                  ev.Inconclusive,
		"known_findings_seen":           ev.KnownHits,
		"violations_found":              vio,
		"native_build_s":                ev.NativeBuildS,
		"solver":                        "portfolio per query: z3 5.1 and cvc5 1.0 raced as fresh processes, z3 4.8.12 as last resort for queries without regular expressions; sliced path conditions, canonical query cache",
		"query_cache_hits":              cacheHits,
		"solver_stages":                 stageSummary(),
		"exhaustive":                    len(ev.Inconclusive) == 0,
		"rule":                          "states = decision-tree nodes (paths + decisions) of the symbolic execution of the harness entry points over the go/ssa form of the current /repo tree; every feasible path within the harness bounds is explored; each assertion on each path is an SMT query PC ∧ ¬assertion",
	}
	out := map[string]interface{}{
		"property_id": ev.Property,
		"tier":        ev.Tier,
		"seed":        ev.Seed,
		"level":       "model_checking",
		"coverage":    cov,
		"assumptions": assumptions,
		"wall_s":      time.Since(ev.t0).Seconds(),
		"violations":  len(ev.Violations),
	}
	data, _ := json.MarshalIndent(out, "", " ")
	dir := filepath.Join(ev.verif, "evidence")
	if d := os.Getenv("VERIF_EVIDENCE_DIR"); d != "" {
		dir = d
	}
	os.MkdirAll(dir, 0o755)
	if err := os.WriteFile(filepath.Join(dir, ev.Property+".json"), data, 0o644); err != nil {
		fmt.Fprintln(os.Stderr, "cannot write evidence:", err)
	}
}

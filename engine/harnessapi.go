package main

// Harness-facing API (vString, vAssert, ...) on the symbolic side, and the
// construction of what the native replay is expected to observe.

import (
	"fmt"
	"go/types"
	"math"
	"sort"
	"strings"
	"sync"

	"golang.org/x/tools/go/ssa"
)

type harnessFn func(m *machine, fr *frame, args []value) value

var harnessAPI map[string]harnessFn

func init() {
	harnessAPI = map[string]harnessFn{
		"vString":     hString,
		"vInt":        hInt,
		"vBool":       hBool,
		"vFloat":      hFloat,
		"vAssume":     hAssume,
		"vAssert":     hAssert,
		"vReach":      hReach,
		"vObserve":    hObserve,
		"vPhase":      hPhase,
		"vSetenv":     hSetenv,
		"vMapOrder":   hMapOrder,
		"vNote":       func(m *machine, fr *frame, args []value) value { return nil },
		"vSymbolic":   func(m *machine, fr *frame, args []value) value { return true },
		"vYield":      hYield,
		"vYieldAgain": hYieldAgain,
		"vThorough":   func(m *machine, fr *frame, args []value) value { return m.w.thorough },
		"vWriter":     hWriter,
		"vNewContext": hNewContext,
		"vGated":      func(m *machine, fr *frame, args []value) value { return false },
		"vOnIdle": func(m *machine, fr *frame, args []value) value {
			m.onIdle = args[0]
			return nil
		},
		"vCancel": hCancel,
		"vClearWritten": func(m *machine, fr *frame, args []value) value {
			delete(m.writers, "w:"+concreteStr(args[0], "vClearWritten name"))
			return nil
		},
		"vRepeat": func(m *machine, fr *frame, args []value) value { return int64(1) },
		"vMatches": func(m *machine, fr *frame, args []value) value {
			pat := concreteStr(args[1], "vMatches pattern")
			d := dualFor(pat)
			switch s := args[0].(type) {
			case string:
				return d.re.MatchString(s)
			case *Term:
				return fromTerm(mkInRe(s, d.smt))
			}
			panic("vMatches")
		},
		"vBound": func(m *machine, fr *frame, args []value) value {
			switch concreteStr(args[0], "vBound name") {
			case "runes":
				m.runesMax = int(asInt64(args[1]))
			case "split":
				m.splitMax = int(asInt64(args[1]))
			case "digits":
				m.digitsMax = int(asInt64(args[1]))
			}
			return nil
		},
		"vAnd": func(m *machine, fr *frame, args []value) value {
			return fromTerm(mkAnd(toTerm(args[0]), toTerm(args[1])))
		},
		"vOr": func(m *machine, fr *frame, args []value) value {
			return fromTerm(mkOr(toTerm(args[0]), toTerm(args[1])))
		},
		"vWritten": hWritten,
		"vEvent":   hEvent,
		"vExit":    func(m *machine, fr *frame, args []value) value { panic(exitPanic{args[0]}) },
	}
}

func (m *machine) runMain(entry *ssa.Function) {
	m.startMain(entry)
}

func (m *machine) input(name, kind string, mk func() *Term) *Term {
	if iv, ok := m.inputs[name]; ok {
		if iv.Kind != kind {
			panic(cut{"harness input " + name + " used with two kinds"})
		}
		return iv.T
	}
	t := mk()
	m.inputs[name] = &inputVar{Name: name, Kind: kind, T: t}
	m.inputOrder = append(m.inputOrder, name)
	return t
}

func concreteStr(v value, what string) string {
	s, ok := v.(string)
	if !ok {
		panic(cut{what + " must be a concrete string"})
	}
	return s
}

func hString(m *machine, fr *frame, args []value) value {
	name := concreteStr(args[0], "vString name")
	return m.input(name, "string", func() *Term { return mkVar(name, SStr) })
}

func hInt(m *machine, fr *frame, args []value) value {
	name := concreteStr(args[0], "vInt name")
	lo, hi := asInt64(args[1]), asInt64(args[2])
	_, existed := m.inputs[name]
	t := m.input(name, "int", func() *Term { return mkVarRange(name, lo, hi) })
	if !existed {
		m.inputs[name].Lo, m.inputs[name].Hi = lo, hi
		m.addPC(rawApp("<=", SBool, mkInt(lo), t))
		m.addPC(rawApp("<=", SBool, t, mkInt(hi)))
		if hi >= lo && uint64(hi)-uint64(lo) < 32 {
			// small domains are enumerated (one explored alternative per value)
			m.smallVars[name] = m.inputs[name]
			m.concretizeIn(t)
		}
	}
	if c, ok := m.concrete[name]; ok {
		return fromTerm(c)
	}
	return t
}

func hBool(m *machine, fr *frame, args []value) value {
	name := concreteStr(args[0], "vBool name")
	t := m.input(name, "bool", func() *Term { return mkVar(name, SBool) })
	if _, done := m.smallVars[name]; !done {
		m.smallVars[name] = m.inputs[name]
		m.concretizeIn(t)
	}
	if c, ok := m.concrete[name]; ok {
		return fromTerm(c)
	}
	return t
}

func hFloat(m *machine, fr *frame, args []value) value {
	name := concreteStr(args[0], "vFloat name")
	t := m.input(name, "float", func() *Term { return mkVar(name, SF64) })
	// bit patterns are 64-bit values (as signed integers)
	if !m.known["frange:"+name] {
		m.known["frange:"+name] = true
		m.addPC(rawApp("<=", SBool, mkInt(math.MinInt64), t))
		m.addPC(rawApp("<=", SBool, t, mkInt(math.MaxInt64)))
	}
	return t
}

// hAssume: the path continues only where the condition holds.
func hAssume(m *machine, fr *frame, args []value) value {
	switch c := args[0].(type) {
	case bool:
		if !c {
			panic(pathEnd{"assumption false"})
		}
	case *Term:
		m.assumeChecked(c)
	}
	return nil
}

// assumeChecked adds c to the PC after checking PC ∧ c is satisfiable.
func (m *machine) assumeChecked(c *Term) {
	if c.Op == "cb" {
		if !c.B {
			panic(pathEnd{"assumption false"})
		}
		return
	}
	if m.known[c.key] {
		return
	}
	m.nDecisions++
	if m.pos < len(m.prefix) {
		d := m.prefix[m.pos]
		m.pos++
		m.trace = append(m.trace, d)
		m.addPC(c)
		return
	}
	r := m.checkWith(c)
	if r == Unsat {
		panic(pathEnd{"assumption infeasible"})
	}
	m.trace = append(m.trace, decision{Choice: 1, N: 1, Forced: true})
	m.pos++
	m.addPC(c)
}

func hAssert(m *machine, fr *frame, args []value) value {
	id := concreteStr(args[0], "vAssert id")
	switch c := args[1].(type) {
	case bool:
		if c {
			m.outcomes = append(m.outcomes, assertOutcome{ID: id, Status: "proved"})
		} else {
			mod, _, res := m.model(nil, nil)
			switch res {
			case Sat:
				m.outcomes = append(m.outcomes, assertOutcome{ID: id, Status: "violated", Model: mod})
			case Unsat:
				panic(pathEnd{"infeasible at failed assertion"})
			default:
				m.outcomes = append(m.outcomes, assertOutcome{ID: id, Status: "unknown"})
			}
		}
	case *Term:
		nc := mkNot(c)
		if m.known[c.key] {
			m.outcomes = append(m.outcomes, assertOutcome{ID: id, Status: "proved"})
			return nil
		}
		// decide on the relevant slice of the path condition first; a model of
		// the whole path is only needed for a counterexample
		res := m.checkWith(nc)
		var mod map[string]modelVal
		if res == Sat {
			mod, _, res = m.model(nc, nil)
		}
		switch res {
		case Unsat:
			m.outcomes = append(m.outcomes, assertOutcome{ID: id, Status: "proved"})
			m.addPC(c)
		case Sat:
			m.outcomes = append(m.outcomes, assertOutcome{ID: id, Status: "violated", Model: mod})
			// continue on the part of the path where the assertion holds
			if m.checkWith(c) == Unsat {
				panic(pathEnd{"assertion fails on the whole path"})
			}
			m.addPC(c)
		default:
			m.outcomes = append(m.outcomes, assertOutcome{ID: id, Status: "unknown"})
			m.addPC(c)
		}
	}
	return nil
}

func hReach(m *machine, fr *frame, args []value) value {
	m.reach = append(m.reach, concreteStr(args[0], "vReach id"))
	return nil
}

func hPhase(m *machine, fr *frame, args []value) value {
	m.phase = concreteStr(args[0], "vPhase")
	return nil
}

func hSetenv(m *machine, fr *frame, args []value) value {
	k := concreteStr(args[0], "vSetenv key")
	m.env[k] = args[1]
	return nil
}

func hMapOrder(m *machine, fr *frame, args []value) value {
	m.mapOrderMode = concreteStr(args[0], "vMapOrder mode")
	return nil
}

// ---------- observations ----------

type obsNode struct {
	kind string // s i b f list map nil e
	v    value
	kids []*obsNode
	keys []*obsNode
}

func hObserve(m *machine, fr *frame, args []value) value {
	key := concreteStr(args[0], "vObserve key")
	n := m.obsTree(fr, args[1], 0)
	m.obs = append(m.obs, observation{Key: key, Val: n})
	return nil
}

var errorIface = types.Universe.Lookup("error").Type().Underlying().(*types.Interface)

func (m *machine) obsTree(fr *frame, v value, depth int) *obsNode {
	if depth > 8 {
		panic(cut{"vObserve: value too deep"})
	}
	itf, ok := v.(iface)
	if !ok {
		panic(fmt.Sprintf("obsTree: not an interface: %T", v))
	}
	if itf.t == nil {
		return &obsNode{kind: "nil"}
	}
	return m.obsTyped(fr, itf.t, itf.v, depth)
}

func (m *machine) obsTyped(fr *frame, t types.Type, v value, depth int) *obsNode {
	if types.Implements(t, errorIface) {
		if p, ok := v.(*value); ok && p == nil {
			return &obsNode{kind: "e", v: "<nil-pointer-error>"}
		}
		msg := m.errorString(fr, iface{t: t, v: v})
		return &obsNode{kind: "e", v: msg}
	}
	switch u := t.Underlying().(type) {
	case *types.Basic:
		switch {
		case u.Info()&types.IsString != 0:
			return &obsNode{kind: "s", v: v}
		case u.Info()&types.IsInteger != 0:
			return &obsNode{kind: "i", v: v}
		case u.Info()&types.IsBoolean != 0:
			return &obsNode{kind: "b", v: v}
		case u.Info()&types.IsFloat != 0:
			return &obsNode{kind: "f", v: v}
		}
	case *types.Pointer:
		p := v.(*value)
		if p == nil {
			return &obsNode{kind: "nil"}
		}
		return m.obsTyped(fr, u.Elem(), load(u.Elem(), p), depth+1)
	case *types.Slice:
		sl, ok := v.([]value)
		if !ok {
			panic(cut{"vObserve: unsupported slice representation"})
		}
		n := &obsNode{kind: "list"}
		if sl == nil {
			n.kind = "nillist"
		}
		for _, e := range sl {
			n.kids = append(n.kids, m.obsTyped(fr, u.Elem(), e, depth+1))
		}
		return n
	case *types.Map:
		mp := v.(*mapV)
		n := &obsNode{kind: "map"}
		if mp != nil {
			for i := range mp.keys {
				n.keys = append(n.keys, m.obsTyped(fr, u.Key(), mp.keys[i], depth+1))
				n.kids = append(n.kids, m.obsTyped(fr, u.Elem(), mp.vals[i], depth+1))
			}
		}
		return n
	case *types.Interface:
		return m.obsTree(fr, v, depth+1)
	}
	panic(cut{"vObserve: unsupported type " + t.String()})
}

// errorString calls err.Error() through the interpreter.
func (m *machine) errorString(fr *frame, e iface) value {
	errObj := types.Universe.Lookup("error").Type().Underlying().(*types.Interface).Method(0)
	if op, ok := e.v.(*opaque); ok {
		return m.callOpaqueMethod(fr, &opaqueMethod{obj: op, name: "Error"}, []value{e.v})
	}
	f := m.lookupMethod(e.t, errObj)
	if f == nil {
		panic(cut{"no Error method for " + e.t.String()})
	}
	return m.call(fr, 0, f, []value{e.v})
}

func (m *machine) obsTerms() []*Term {
	var ts []*Term
	seen := map[string]bool{}
	var walk func(n *obsNode)
	walk = func(n *obsNode) {
		if t, ok := n.v.(*Term); ok && !seen[t.key] {
			seen[t.key] = true
			ts = append(ts, t)
		}
		for _, k := range n.keys {
			walk(k)
		}
		for _, k := range n.kids {
			walk(k)
		}
	}
	for _, o := range m.obs {
		walk(o.Val.(*obsNode))
	}
	return ts
}

type nativeExpect struct {
	Obs     [][2]string     `json:"obs"`
	Asserts map[string]bool `json:"asserts"` // id -> must hold
	Reach   []string        `json:"reach"`
	End     string          `json:"end"`
}

func hexOf(b []byte) string { return fmt.Sprintf("%x", b) }

func (m *machine) expectations(vals map[string]sexp, end string) *nativeExpect {
	ex := &nativeExpect{Asserts: map[string]bool{}, End: end}
	var render func(n *obsNode) string
	render = func(n *obsNode) string {
		switch n.kind {
		case "nil":
			return "nil"
		case "s", "e":
			var bs []byte
			switch v := n.v.(type) {
			case string:
				bs = []byte(v)
			case *Term:
				bs, _ = smtUnescape(vals[v.key].atom)
			}
			return n.kind + ":" + hexOf(bs)
		case "i":
			switch v := n.v.(type) {
			case int64:
				return fmt.Sprintf("i:%d", v)
			case *Term:
				x, _ := sexpInt(vals[v.key])
				return fmt.Sprintf("i:%d", x)
			}
		case "b":
			switch v := n.v.(type) {
			case bool:
				return fmt.Sprintf("b:%v", v)
			case *Term:
				return "b:" + vals[v.key].atom
			}
		case "f":
			switch v := n.v.(type) {
			case float64:
				return fmt.Sprintf("f:%016x", f64bits(v))
			case *Term:
				x, _ := sexpInt(vals[v.key])
				return fmt.Sprintf("f:%016x", uint64(x))
			}
		case "list", "nillist":
			var ps []string
			for _, k := range n.kids {
				ps = append(ps, render(k))
			}
			return "[" + strings.Join(ps, ",") + "]"
		case "map":
			var ps []string
			for i := range n.keys {
				ps = append(ps, render(n.keys[i])+"="+render(n.kids[i]))
			}
			sort.Strings(ps)
			return "{" + strings.Join(ps, ",") + "}"
		}
		return "?"
	}
	for _, o := range m.obs {
		ex.Obs = append(ex.Obs, [2]string{o.Key, render(o.Val.(*obsNode))})
	}
	for _, a := range m.outcomes {
		// the final path model satisfies every assertion that was proved, and
		// every violated one as well (the path continued under the assertion)
		if a.Status == "proved" || a.Status == "violated" {
			ex.Asserts[a.ID] = true
		}
	}
	ex.Reach = append(ex.Reach, m.reach...)
	return ex
}

// vWriter(name) returns an io.Writer recorded by the engine; vWritten(name)
// returns everything written to it so far.
func hWriter(m *machine, fr *frame, args []value) value {
	name := concreteStr(args[0], "vWriter name")
	return iface{t: types.Typ[types.Int], v: &opaque{kind: "w:" + name}}
}

func hWritten(m *machine, fr *frame, args []value) value {
	name := concreteStr(args[0], "vWritten name")
	if p, ok := m.writers["w:"+name]; ok {
		return *p
	}
	return ""
}

func (m *machine) callOpaqueMethod(fr *frame, om *opaqueMethod, args []value) value {
	switch om.obj.kind {
	case "error":
		if om.name == "Error" {
			return om.obj.data.(string)
		}
	}
	if strings.HasPrefix(om.obj.kind, "w:") && om.name == "Write" {
		// args: receiver, []byte
		text := bytesToTerm(args[len(args)-1])
		m.appendWriter(om.obj.kind, text)
		return tuple{fromTerm(mkLen(text)), iface{}}
	}
	return m.callOpaqueMethodExt(fr, om, args)
}

var (
	dualMu    sync.Mutex
	dualCache = map[string]*dualRe{}
)

func dualFor(pat string) *dualRe {
	dualMu.Lock()
	defer dualMu.Unlock()
	if d, ok := dualCache[pat]; ok {
		return d
	}
	d := newDual(pat)
	dualCache[pat] = d
	return d
}

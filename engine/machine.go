package main

// One machine = one run of a harness along one path (decision trace).

import (
	"context"
	"fmt"
	"go/types"
	"os"
	"sort"
	"strings"
	"sync"
	"sync/atomic"
	"time"

	"golang.org/x/tools/go/ssa"
)

type Config struct {
	MaxSteps     int
	MaxDecisions int
	SplitMax     int // max parts for strings.Split / regexp.Split forks
	RunesMax     int // max letters when a string is exploded into characters
	MapPerms     bool
	SolverMs     int
}

type world struct {
	prog       *ssa.Program
	modulePkgs map[*ssa.Package]bool
	pkgByPath  map[string]*ssa.Package
	initOrder  []*ssa.Package
	cfg        Config
	harnessPkg *ssa.Package
	regexCache map[string]*regexTemplate
	thorough   bool
}

var interpWhitelist = map[string]bool{
	"(time.Duration).Round":          true,
	"time.lessThanHalf":              true,
	"(time.Duration).String":         false,
	"context.Background":             true,
	"(*errors.errorString).Error":    true,
	"(*fmt.wrapError).Error":         true,
	"(*fmt.wrapError).Unwrap":        true,
	"(*fmt.wrapErrors).Error":        true,
	"(*fmt.wrapErrors).Unwrap":       true,
	"(*strconv.NumError).Unwrap":     true,
	"(context.backgroundCtx).String": false,
}

func (w *world) interpretable(fn *ssa.Function) bool {
	f := fn
	for f.Parent() != nil {
		f = f.Parent()
	}
	if f.Pkg != nil {
		if w.modulePkgs[f.Pkg] {
			return true
		}
		return interpWhitelist[f.String()]
	}
	// synthetic wrappers / bound methods / instantiations
	if f.Synthetic != "" {
		if o := f.Object(); o != nil && o.Pkg() != nil {
			if p := w.pkgByPath[o.Pkg().Path()]; p != nil && w.modulePkgs[p] {
				return true
			}
			return interpWhitelist[f.String()] || strings.Contains(f.Synthetic, "wrapper") || strings.Contains(f.Synthetic, "bound") || strings.Contains(f.Synthetic, "thunk")
		}
		return true
	}
	return false
}

type decision struct {
	Choice int  `json:"c"`
	N      int  `json:"n"`
	Forced bool `json:"f,omitempty"`
}

type inputVar struct {
	Name string
	Kind string // string int bool float
	T    *Term
	Lo   int64
	Hi   int64
}

type assertOutcome struct {
	ID     string
	Status string // proved, violated, unknown, concrete-true
	Model  map[string]modelVal
}

type observation struct {
	Key string
	Val value
}

type abortRun struct{ why string }

type machine struct {
	w        *world
	x        *explorer
	sessions []*sess
	globals  map[*ssa.Global]*value

	prefix []decision
	pos    int
	trace  []decision

	pc        []*Term
	pcSent    int
	declared  map[string]bool
	known     map[string]bool
	pcUnknown bool

	inputs     map[string]*inputVar
	inputOrder []string
	fresh      int
	mapCounter int
	steps      int
	depth      int
	nDecisions int

	phase        string
	outcomes     []assertOutcome
	reach        []string
	obs          []observation
	assumptions  map[string]bool
	env          map[string]value // symbolic process environment
	envRead      map[string]bool
	writers      map[string]*value
	mapOrderMode string
	permChoices  []int

	intrinsicsUsed map[string]int
	funcsRun       map[*ssa.Function]int

	sched *scheduler
	cur   *goroutine

	events    []string // dag event log etc (engine-side)
	charCache map[string][2]*Term
	memo      map[string]value
	fold      map[string]*Term
	buffers   map[*value]*value
	onIdle    value
	onces     map[*value]bool
	permCache map[string][]int
	smallVars map[string]*inputVar
	runesMax  int
	digitsMax int
	splitMax  int
	varCache  map[*Term][]string
	concrete  map[string]*Term
}

func newMachine(x *explorer, pool []*Solver, prefix []decision) *machine {
	m := &machine{
		w: x.w, x: x, prefix: prefix,
		globals:        map[*ssa.Global]*value{},
		known:          map[string]bool{},
		inputs:         map[string]*inputVar{},
		assumptions:    map[string]bool{},
		env:            map[string]value{},
		envRead:        map[string]bool{},
		writers:        map[string]*value{},
		intrinsicsUsed: map[string]int{},
		funcsRun:       map[*ssa.Function]int{},
		phase:          "define",
		memo:           map[string]value{},
		smallVars:      map[string]*inputVar{},
		runesMax:       x.w.cfg.RunesMax,
		splitMax:       x.w.cfg.SplitMax,
		varCache:       map[*Term][]string{},
		concrete:       map[string]*Term{},
	}
	for _, s := range pool {
		m.sessions = append(m.sessions, &sess{s: s})
	}
	return m
}

// ---------- globals ----------

func (m *machine) globalAddr(g *ssa.Global) *value {
	if p, ok := m.globals[g]; ok {
		return p
	}
	v := zero(deref(g.Type()))
	p := &v
	m.globals[g] = p
	if g.Pkg != nil && !m.w.modulePkgs[g.Pkg] {
		name := g.Pkg.Pkg.Path() + "." + g.Name()
		switch name {
		case "os.Args":
			*p = []value{"prog"}
		case "os.Stdout", "os.Stderr", "os.Stdin":
			// *os.File: pointer to an opaque cell
			cell := value(&opaque{kind: name})
			*p = &cell
		case "io.Discard":
			*p = iface{t: types.Typ[types.Int], v: &opaque{kind: "io.Discard"}}
		case "strconv.ErrSyntax":
			*p = m.errorsNew("invalid syntax")
		case "strconv.ErrRange":
			*p = m.errorsNew("value out of range")
		case "io.EOF":
			*p = iface{t: types.Typ[types.Int], v: &opaque{kind: "io.EOF"}}
		default:
			if strings.HasSuffix(name, "init$guard") {
				return p
			}
			panic(cut{"read of unmodelled global " + name})
		}
	}
	return p
}

func (m *machine) runInits() {
	for _, p := range m.w.initOrder {
		if f := p.Func("init"); f != nil {
			m.callSSA(nil, 0, f, nil, nil)
		}
	}
}

// ---------- path condition ----------

func (m *machine) freshStr(hint string) *Term {
	m.fresh++
	return mkVar(fmt.Sprintf("%%%d_%s", m.fresh, hint), SStr)
}

func (m *machine) freshInt(hint string) *Term {
	m.fresh++
	return mkVar(fmt.Sprintf("%%%d_%s", m.fresh, hint), SInt)
}

func (m *machine) freshBool(hint string) *Term {
	m.fresh++
	return mkVar(fmt.Sprintf("%%%d_%s", m.fresh, hint), SBool)
}

func smtName(n string) string { return "|" + n + "|" }

// addPC appends a conjunct (no solver interaction).
func (m *machine) addPC(c *Term) {
	if c.Op == "cb" {
		if !c.B {
			panic(pathEnd{"path condition became false"})
		}
		return
	}
	if c.Op == "and" {
		for _, a := range c.Args {
			m.addPC(a)
		}
		return
	}
	if m.known[c.key] {
		return
	}
	m.known[c.key] = true
	m.pc = append(m.pc, c)
}

// assume adds a definitional or harness assumption to the path condition.
// The caller guarantees satisfiability together with the current PC, or wants
// the path to end when it is not (checked lazily by later queries).
func (m *machine) assume(c *Term) {
	m.addPC(c)
}

// sess is the per-run state of one solver process of the portfolio.
type sess struct {
	s        *Solver
	started  bool
	pcSent   int
	declared map[string]bool
}

func (m *machine) declsFor(ss *sess, t *Term, b *strings.Builder) {
	t.walk(func(x *Term) {
		if x.Op == "var" && !ss.declared[x.Name] {
			ss.declared[x.Name] = true
			fmt.Fprintf(b, "(declare-const %s %s)\n", x.key, x.Sort.smt())
		}
	})
}

// syncPC starts the session if needed and sends not-yet-sent conjuncts.
func (m *machine) syncPC(ss *sess) error {
	if !ss.started {
		ss.started = true
		ss.declared = map[string]bool{}
		if err := ss.s.push(); err != nil {
			return err
		}
	}
	if ss.pcSent == len(m.pc) {
		return nil
	}
	var b strings.Builder
	for _, c := range m.pc[ss.pcSent:] {
		m.declsFor(ss, c, &b)
		fmt.Fprintf(&b, "(assert %s)\n", c.key)
	}
	ss.pcSent = len(m.pc)
	_, err := ss.s.send(b.String())
	return err
}

func (m *machine) endSessions() {
	for _, ss := range m.sessions {
		if ss.started && !ss.s.dead {
			for ss.s.depth > 0 {
				ss.s.pop()
			}
		}
		ss.started = false
	}
}

// termVars returns (cached) the variable names of a term; uninterpreted
// function applications contribute the pseudo-variable "@uf".
func (m *machine) termVars(t *Term) []string {
	if vs, ok := m.varCache[t]; ok {
		return vs
	}
	set := map[string]bool{}
	t.walk(func(x *Term) {
		switch x.Op {
		case "var":
			set[x.Name] = true
		case "pf_val", "pf32_val", "pi0_val", "f64_fmt", "f64_of_int", "go.tolower":
			set["@uf"] = true
		}
	})
	vs := make([]string, 0, len(set))
	for v := range set {
		vs = append(vs, v)
	}
	m.varCache[t] = vs
	return vs
}

// slice returns the conjuncts of the path condition that share variables
// (transitively) with the given terms. The rest of the path condition is
// satisfiable on its own and cannot affect the answer.
func (m *machine) pcSlice(extras []*Term) []*Term {
	want := map[string]bool{}
	for _, e := range extras {
		for _, v := range m.termVars(e) {
			want[v] = true
		}
	}
	used := make([]bool, len(m.pc))
	for changed := true; changed; {
		changed = false
		for i, c := range m.pc {
			if used[i] {
				continue
			}
			vs := m.termVars(c)
			hit := false
			for _, v := range vs {
				if want[v] {
					hit = true
					break
				}
			}
			if hit {
				used[i] = true
				changed = true
				for _, v := range vs {
					want[v] = true
				}
			}
		}
	}
	var out []*Term
	for i, c := range m.pc {
		if used[i] {
			out = append(out, c)
		}
	}
	return out
}

// script renders the path condition (sliced to what matters for extras when
// sliced is set) plus the extras as a standalone query.
func (m *machine) script(extras []*Term, declOnly []*Term, sliced bool) string {
	var b strings.Builder
	decl := map[string]bool{}
	d := func(t *Term) {
		t.walk(func(x *Term) {
			if x.Op == "var" && !decl[x.Name] {
				decl[x.Name] = true
				fmt.Fprintf(&b, "(declare-const %s %s)\n", x.key, x.Sort.smt())
			}
		})
	}
	pc := m.pc
	if sliced {
		pc = m.pcSlice(extras)
	}
	for _, c := range pc {
		d(c)
	}
	for _, c := range extras {
		d(c)
	}
	for _, c := range declOnly {
		d(c)
	}
	for _, c := range pc {
		fmt.Fprintf(&b, "(assert %s)\n", c.key)
	}
	for _, c := range extras {
		fmt.Fprintf(&b, "(assert %s)\n", c.key)
	}
	return b.String()
}

// queryCache: verdicts of standalone (sliced, canonically renamed) queries,
// shared by all paths and workers of a run.
var (
	queryCache sync.Map
	cacheHits  int64
)

// canonicalScript renames variables in order of first occurrence.
func canonicalScript(s string) string {
	var b strings.Builder
	names := map[string]string{}
	for i := 0; i < len(s); {
		if s[i] == '"' {
			// string literal: copy verbatim ("" is an escaped quote)
			j := i + 1
			for j < len(s) {
				if s[j] == '"' {
					if j+1 < len(s) && s[j+1] == '"' {
						j += 2
						continue
					}
					break
				}
				j++
			}
			b.WriteString(s[i : j+1])
			i = j + 1
			continue
		}
		if s[i] == '|' {
			j := strings.IndexByte(s[i+1:], '|')
			name := s[i : i+j+2]
			c, ok := names[name]
			if !ok {
				c = fmt.Sprintf("|x%d|", len(names))
				names[name] = c
			}
			b.WriteString(c)
			i += j + 2
			continue
		}
		b.WriteByte(s[i])
		i++
	}
	return b.String()
}

// checkWith decides satisfiability of PC ∧ extra, escalating through the
// solver portfolio while the answer is unknown.
func (m *machine) checkWith(extra *Term) Result {
	res := Unknown
	script := canonicalScript(m.script([]*Term{extra}, nil, true))
	if r, ok := queryCache.Load(script); ok {
		atomic.AddInt64(&cacheHits, 1)
		return r.(Result)
	}
	// stage 1: the first two one-shot solvers race (each is much faster than the
	// other on some kinds of query); the loser is killed
	order := make([]int, 0, len(m.sessions))
	if len(m.sessions) >= 2 && m.sessions[0].s.oneshot && m.sessions[1].s.oneshot {
		type ans struct {
			r   Result
			err error
			i   int
		}
		ctx, cancel := context.WithCancel(context.Background())
		ch := make(chan ans, 2)
		t0 := time.Now()
		for i := 0; i < 2; i++ {
			go func(i int) {
				r, _, err := m.sessions[i].s.runOneShotCtx(ctx, script+"(check-sat)\n")
				ch <- ans{r, err, i}
			}(i)
		}
		var firstErr error
		for k := 0; k < 2; k++ {
			a := <-ch
			m.x.noteQuery(a.i)
			if a.err != nil && firstErr == nil {
				firstErr = a.err
			}
			if a.err == nil && a.r != Unknown {
				cancel()
				noteStage(m.sessions[a.i].s.name, time.Since(t0), a.r)
				queryCache.Store(script, a.r)
				m.slowLog(t0, a.r, extra)
				return a.r
			}
		}
		cancel()
		noteStage("race", time.Since(t0), Unknown)
		m.slowLog(t0, Unknown, extra)
		if firstErr != nil {
			panic(abortRun{firstErr.Error()})
		}
		for i := 2; i < len(m.sessions); i++ {
			if strings.Contains(script, "str.in_re") && m.sessions[i].s.name == "z3-1" {
				continue // z3 4.8.12 practically never decides a regex query the others could not
			}
			order = append(order, i)
		}
	} else {
		for i := range m.sessions {
			order = append(order, i)
		}
	}
	for _, i := range order {
		ss := m.sessions[i]
		if ss.s.dead {
			continue
		}
		if ss.s.oneshot || ss.s.server {
			t0 := time.Now()
			var r Result
			var err error
			if ss.s.server {
				r, err = ss.s.runServer(script)
				if err != nil && ss.s.dead {
					// the server process died (e.g. memory): fall through to the next solver
					m.x.noteQuery(i)
					continue
				}
			} else {
				r, _, err = ss.s.runOneShot(script+"(check-sat)\n", false)
			}
			m.x.noteQuery(i)
			noteStage(ss.s.name, time.Since(t0), r)
			m.slowLog(t0, r, extra)
			if err != nil {
				panic(abortRun{err.Error()})
			}
			if r != Unknown {
				queryCache.Store(script, r)
				return r
			}
			res = r
			continue
		}
		if err := m.syncPC(ss); err != nil {
			panic(abortRun{err.Error()})
		}
		var b strings.Builder
		m.declsFor(ss, extra, &b)
		if b.Len() > 0 {
			if _, err := ss.s.send(b.String()); err != nil {
				panic(abortRun{err.Error()})
			}
		}
		t0 := time.Now()
		r, err := ss.s.check("(push 1)\n(assert " + extra.key + ")")
		m.x.noteQuery(i)
		m.slowLog(t0, r, extra)
		if err != nil {
			ss.s.send("(pop 1)")
			panic(abortRun{err.Error()})
		}
		if _, err := ss.s.send("(pop 1)"); err != nil {
			panic(abortRun{err.Error()})
		}
		if r != Unknown {
			return r
		}
		res = r
	}
	return res
}

// branch decides a symbolic condition, consulting the prefix or the solver.
func (m *machine) branch(c *Term) bool {
	return m.branchNeg(c, nil)
}

// branchNeg is branch with an explicitly given condition for the false side
// (equivalent to ¬c under the current path condition, but easier to solve).
func (m *machine) branchNeg(c, nc *Term) bool {
	if c.Op == "cb" {
		return c.B
	}
	// small-domain inputs are concretised at first use (no solver involved)
	if c2 := m.concretizeIn(c); c2 != c {
		c = c2
		if nc != nil {
			nc = m.concretizeIn(nc)
		}
		if c.Op == "cb" {
			return c.B
		}
	}
	if m.known[c.key] {
		return true
	}
	if nc == nil {
		nc = mkNot(c)
	} else if m.known[mkNot(c).key] {
		return false
	}
	if m.known[nc.key] {
		return false
	}
	m.nDecisions++
	if m.nDecisions > m.w.cfg.MaxDecisions {
		panic(unwindOverflow{fmt.Sprintf("more than %d symbolic decisions on one path", m.w.cfg.MaxDecisions)})
	}
	if m.x.stopped() {
		panic(abortRun{"budget"})
	}
	if m.pos < len(m.prefix) {
		d := m.prefix[m.pos]
		m.pos++
		m.trace = append(m.trace, d)
		if d.Choice == 1 {
			m.addPC(c)
			return true
		}
		m.addPC(nc)
		return false
	}
	// frontier
	rt := m.checkWith(c)
	if rt == Unsat {
		m.trace = append(m.trace, decision{Choice: 0, N: 2, Forced: true})
		m.pos++
		m.addPC(nc)
		return false
	}
	rf := m.checkWith(nc)
	if rf == Unsat {
		m.trace = append(m.trace, decision{Choice: 1, N: 2, Forced: true})
		m.pos++
		m.addPC(c)
		return true
	}
	if rt == Unknown || rf == Unknown {
		m.pcUnknown = true
		m.x.noteUnknownBranch(c)
	}
	// both feasible (or unknown): take true now, queue false
	alt := append(append([]decision{}, m.trace...), decision{Choice: 0, N: 2})
	m.x.push(alt)
	m.trace = append(m.trace, decision{Choice: 1, N: 2})
	m.pos++
	m.addPC(c)
	return true
}

// concretizeIn fixes the values of small-domain input variables occurring in c
// (one explored alternative per value) and returns c with them substituted.
func (m *machine) concretizeIn(c *Term) *Term {
	if len(m.smallVars) == 0 {
		return c
	}
	var todo []*inputVar
	hit := false
	c.walk(func(x *Term) {
		if x.Op == "var" {
			if iv, ok := m.smallVars[x.Name]; ok {
				hit = true
				if _, done := m.concrete[x.Name]; !done {
					dup := false
					for _, t := range todo {
						if t == iv {
							dup = true
						}
					}
					if !dup {
						todo = append(todo, iv)
					}
				}
			}
		}
	})
	if !hit {
		return c
	}
	for _, iv := range todo {
		var val *Term
		if iv.Kind == "bool" {
			val = mkBool(m.choose(2, "input "+iv.Name) == 1)
		} else {
			val = mkInt(iv.Lo + int64(m.choose(int(iv.Hi-iv.Lo+1), "input "+iv.Name)))
		}
		m.concrete[iv.Name] = val
		m.addPC(mkEq(iv.T, val))
	}
	return substTerm(c, m.concrete)
}

// choose picks one of n unconstrained alternatives (scheduler, map order).
func (m *machine) choose(n int, what string) int {
	if n <= 1 {
		return 0
	}
	m.nDecisions++
	if m.nDecisions > m.w.cfg.MaxDecisions {
		panic(unwindOverflow{fmt.Sprintf("more than %d decisions on one path", m.w.cfg.MaxDecisions)})
	}
	if m.pos < len(m.prefix) {
		d := m.prefix[m.pos]
		m.pos++
		m.trace = append(m.trace, d)
		return d.Choice
	}
	for alt := 1; alt < n; alt++ {
		p := append(append([]decision{}, m.trace...), decision{Choice: alt, N: n})
		m.x.push(p)
	}
	m.trace = append(m.trace, decision{Choice: 0, N: n})
	m.pos++
	return 0
}

// ---------- folding of decompositions ----------

// noteFold records that the concatenation whole is, on this path, the string
// orig it was decomposed from; foldTerm rewrites such concatenations back so
// that the same string is represented by the same term.
func (m *machine) noteFold(whole, orig *Term) {
	if m.fold == nil {
		m.fold = map[string]*Term{}
	}
	m.fold[whole.key] = orig
}

func (m *machine) foldTerm(t *Term) *Term {
	if len(m.fold) == 0 || t.Op != "str.++" {
		return t
	}
	for changed := true; changed; {
		changed = false
		parts := concatParts(t)
		n := len(parts)
	search:
		for w := n; w >= 2; w-- {
			for i := 0; i+w <= n; i++ {
				sub := mkConcat(parts[i : i+w]...)
				if o, ok := m.fold[sub.key]; ok {
					np := append(append(append([]*Term{}, parts[:i]...), o), parts[i+w:]...)
					t = mkConcat(np...)
					changed = true
					break search
				}
			}
		}
		if t.Op != "str.++" {
			break
		}
	}
	return t
}

// ---------- map iteration order ----------

func (m *machine) mapOrder(mp *mapV) []int {
	n := len(mp.keys)
	order := make([]int, n)
	for i := range order {
		order[i] = i
	}
	if !m.w.cfg.MapPerms || m.mapOrderMode != "explore" || n < 2 {
		return order
	}
	// one order per map object and size per run
	ck := fmt.Sprintf("%d/%d", mp.id, n)
	if m.permCache == nil {
		m.permCache = map[string][]int{}
	}
	if o, ok := m.permCache[ck]; ok {
		return o
	}
	defer func() { m.permCache[ck] = order }()
	// choose a permutation: all n! for n<=3, rotations (+reverse) beyond
	if n <= 3 {
		perms := permutations(n)
		c := m.choose(len(perms), "maporder")
		order = perms[c]
		return order
	}
	c := m.choose(n+1, "maporder")
	if c == n {
		for i := range order {
			order[i] = n - 1 - i
		}
		return order
	}
	for i := range order {
		order[i] = (i + c) % n
	}
	return order
}

func permutations(n int) [][]int {
	var res [][]int
	var rec func(cur []int, used []bool)
	rec = func(cur []int, used []bool) {
		if len(cur) == n {
			res = append(res, append([]int{}, cur...))
			return
		}
		for i := 0; i < n; i++ {
			if !used[i] {
				used[i] = true
				rec(append(cur, i), used)
				used[i] = false
			}
		}
	}
	rec(nil, make([]bool, n))
	return res
}

// ---------- models ----------

type modelVal struct {
	T    string `json:"t"`
	Hex  string `json:"hex,omitempty"`
	I    int64  `json:"i,omitempty"`
	B    bool   `json:"b,omitempty"`
	Bits uint64 `json:"bits,omitempty"`
	Q    string `json:"q,omitempty"` // human-readable (quoted) form of a string
}

var byteRangeRe = reStar(reRange(0, 255))

// model extracts a model of PC ∧ extra for the harness inputs (and evaluates
// the given additional terms). ok=false when unsat/unknown.
func (m *machine) model(extra *Term, also []*Term) (map[string]modelVal, map[string]sexp, Result) {
	if extra == nil && len(also) == 0 {
		// every input already has a concrete value: no solver needed
		all := true
		for _, n := range m.inputOrder {
			if _, ok := m.concrete[n]; !ok {
				all = false
				break
			}
		}
		if all && m.pcAllConcrete() {
			res := map[string]modelVal{}
			for _, n := range m.inputOrder {
				c := m.concrete[n]
				if m.inputs[n].Kind == "bool" {
					res[n] = modelVal{T: "bool", B: c.B}
				} else {
					res[n] = modelVal{T: "int", I: c.I}
				}
			}
			return res, map[string]sexp{}, Sat
		}
	}
	res := Unknown
	for i, ss := range m.sessions {
		if ss.s.dead || ss.s.server {
			continue
		}
		mod, vals, r := m.modelOn(i, ss, extra, also)
		if r != Unknown {
			return mod, vals, r
		}
		res = r
	}
	return nil, nil, res
}

// pcAllConcrete: the path condition only mentions concretised inputs.
func (m *machine) pcAllConcrete() bool {
	for _, c := range m.pc {
		for _, v := range m.termVars(c) {
			if _, ok := m.concrete[v]; !ok {
				return false
			}
		}
	}
	return true
}

func (m *machine) modelOn(si int, ss *sess, extra *Term, also []*Term) (map[string]modelVal, map[string]sexp, Result) {
	if ss.s.oneshot {
		return m.modelOneShot(si, ss, extra, also)
	}
	if err := m.syncPC(ss); err != nil {
		panic(abortRun{err.Error()})
	}
	var b strings.Builder
	if extra != nil {
		m.declsFor(ss, extra, &b)
	}
	var terms []*Term
	for _, n := range m.inputOrder {
		iv := m.inputs[n]
		m.declsFor(ss, iv.T, &b)
		terms = append(terms, iv.T)
	}
	for _, t := range also {
		m.declsFor(ss, t, &b)
	}
	if b.Len() > 0 {
		if _, err := ss.s.send(b.String()); err != nil {
			panic(abortRun{err.Error()})
		}
	}
	ss.s.send("(push 1)")
	defer ss.s.send("(pop 1)")
	if extra != nil {
		if _, err := ss.s.send("(assert " + extra.key + ")"); err != nil {
			panic(abortRun{err.Error()})
		}
	}
	for attempt := 0; attempt < 2; attempt++ {
		t0 := time.Now()
		r, err := ss.s.check("")
		m.x.noteQuery(si)
		m.slowLog(t0, r, extra)
		if err != nil {
			panic(abortRun{err.Error()})
		}
		if r != Sat {
			return nil, nil, r
		}
		vals, err := ss.s.getValues(append(append([]*Term{}, terms...), also...))
		if err != nil {
			panic(abortRun{err.Error()})
		}
		res := map[string]modelVal{}
		okBytes := true
		for _, n := range m.inputOrder {
			iv := m.inputs[n]
			e := vals[iv.T.key]
			switch iv.Kind {
			case "string":
				bs, ok := smtUnescape(e.atom)
				if !ok {
					okBytes = false
				}
				res[n] = modelVal{T: "string", Hex: fmt.Sprintf("%x", bs), Q: fmt.Sprintf("%q", string(bs))}
			case "int":
				v, _ := sexpInt(e)
				res[n] = modelVal{T: "int", I: v}
			case "bool":
				res[n] = modelVal{T: "bool", B: e.atom == "true"}
			case "float":
				v, _ := sexpInt(e)
				res[n] = modelVal{T: "float", Bits: uint64(v)}
			}
		}
		for _, t := range also {
			if t.Sort == SStr {
				if _, ok := smtUnescape(vals[t.key].atom); !ok {
					okBytes = false
				}
			}
		}
		if okBytes {
			return res, vals, Sat
		}
		// constrain all string inputs to byte range and retry
		var c strings.Builder
		for _, n := range m.inputOrder {
			iv := m.inputs[n]
			if iv.Kind == "string" {
				fmt.Fprintf(&c, "(assert %s)\n", mkInRe(iv.T, byteRangeRe).key)
			}
		}
		if _, err := ss.s.send(c.String()); err != nil {
			panic(abortRun{err.Error()})
		}
	}
	return nil, nil, Unknown
}

func (m *machine) modelOneShot(si int, ss *sess, extra *Term, also []*Term) (map[string]modelVal, map[string]sexp, Result) {
	var terms []*Term
	for _, n := range m.inputOrder {
		terms = append(terms, m.inputs[n].T)
	}
	all := append(append([]*Term{}, terms...), also...)
	var extras []*Term
	if extra != nil {
		extras = append(extras, extra)
	}
	for attempt := 0; attempt < 2; attempt++ {
		var gv strings.Builder
		gv.WriteString("(check-sat)\n")
		if len(all) > 0 {
			gv.WriteString("(get-value (")
			for _, t := range all {
				gv.WriteString(t.key)
				gv.WriteByte(' ')
			}
			gv.WriteString("))\n")
		}
		t0 := time.Now()
		r, rest, err := ss.s.runOneShot(m.script(extras, all, false)+gv.String(), true)
		m.x.noteQuery(si)
		noteStage(ss.s.name+"/model", time.Since(t0), r)
		m.slowLog(t0, r, extra)
		if err != nil {
			panic(abortRun{err.Error()})
		}
		if r != Sat {
			return nil, nil, r
		}
		vals := map[string]sexp{}
		if len(all) > 0 {
			vals, err = parseValues(rest, all)
			if err != nil {
				panic(abortRun{err.Error()})
			}
		}
		res, okBytes := m.decodeModel(vals, also)
		if okBytes {
			return res, vals, Sat
		}
		for _, n := range m.inputOrder {
			iv := m.inputs[n]
			if iv.Kind == "string" {
				extras = append(extras, mkInRe(iv.T, byteRangeRe))
			}
		}
	}
	return nil, nil, Unknown
}

func (m *machine) decodeModel(vals map[string]sexp, also []*Term) (map[string]modelVal, bool) {
	res := map[string]modelVal{}
	okBytes := true
	for _, n := range m.inputOrder {
		iv := m.inputs[n]
		e := vals[iv.T.key]
		switch iv.Kind {
		case "string":
			bs, ok := smtUnescape(e.atom)
			if !ok {
				okBytes = false
			}
			res[n] = modelVal{T: "string", Hex: fmt.Sprintf("%x", bs), Q: fmt.Sprintf("%q", string(bs))}
		case "int":
			v, _ := sexpInt(e)
			res[n] = modelVal{T: "int", I: v}
		case "bool":
			res[n] = modelVal{T: "bool", B: e.atom == "true"}
		case "float":
			v, _ := sexpInt(e)
			res[n] = modelVal{T: "float", Bits: uint64(v)}
		}
	}
	for _, t := range also {
		if t.Sort == SStr {
			if _, ok := smtUnescape(vals[t.key].atom); !ok {
				okBytes = false
			}
		}
	}
	return res, okBytes
}

var slowMu sync.Mutex

func (m *machine) slowLog(t0 time.Time, r Result, extra *Term) {
	p := os.Getenv("SYMGO_SLOWLOG")
	if p == "" || (time.Since(t0) < 800*time.Millisecond && os.Getenv("SYMGO_LOGALL") == "") {
		return
	}
	slowMu.Lock()
	defer slowMu.Unlock()
	f, err := os.OpenFile(p, os.O_APPEND|os.O_CREATE|os.O_WRONLY, 0o644)
	if err != nil {
		return
	}
	defer f.Close()
	fmt.Fprintf(f, "; ---- %s %.2fs result=%s\n", m.x.harness, time.Since(t0).Seconds(), r)
	decl := map[string]bool{}
	var b strings.Builder
	all := append([]*Term{}, m.pc...)
	if extra != nil {
		all = append(all, extra)
	}
	for _, c := range all {
		c.walk(func(x *Term) {
			if x.Op == "var" && !decl[x.Name] {
				decl[x.Name] = true
				fmt.Fprintf(&b, "(declare-const %s %s)\n", x.key, x.Sort.smt())
			}
		})
	}
	for _, c := range all {
		fmt.Fprintf(&b, "(assert %s)\n", c.key)
	}
	b.WriteString("(check-sat)\n")
	f.WriteString(b.String())
}

func sortedKeys(m map[string]bool) []string {
	var ks []string
	for k := range m {
		ks = append(ks, k)
	}
	sort.Strings(ks)
	return ks
}

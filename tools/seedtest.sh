#!/bin/bash
# seedtest.sh <outdir> <N> <seed-id> <PROP> [more PROPs...]
# Confirms a seeded change (compiles, suite passes, demo fails with / passes without)
# in a scratch worktree, runs the given checks against it, records the result in
# /verif/seeded/<seed-id>/ and removes the worktree.
set -u
OUT=$1; N=$2; ID=$3; shift 3
export GOFLAGS=-mod=mod GOPROXY=off GOSUMDB=off GOTOOLCHAIN=local
WT=/tmp/seedwt/$ID
rm -rf "$WT"; git -C /repo worktree prune
git -C /repo worktree add -q "$WT" HEAD || exit 2
cleanup() { git -C /repo worktree remove --force "$WT" 2>/dev/null; rm -rf "$WT"; }
trap cleanup EXIT
DIFF=$OUT/mut$N.diff; DEMO=$OUT/mut${N}_demo_test.go
pkgdir=.
if grep -q '^package dag' "$DEMO"; then pkgdir=dag; fi
res() { echo "$1"; }
cd "$WT"
git apply "$DIFF" 2>/dev/null || git apply -3 "$DIFF" || { echo "RESULT $ID apply-failed"; exit 3; }
if ! go build ./... >/dev/null 2>&1; then echo "RESULT $ID does-not-compile"; exit 3; fi
if ! go test -vet=off -count=1 ./... >/tmp/seedwt/$ID.suite.log 2>&1; then echo "RESULT $ID suite-fails-with-mutation"; tail -5 /tmp/seedwt/$ID.suite.log; exit 3; fi
cp "$DEMO" "$pkgdir/zz_seed_demo_test.go"
if go test -vet=off -count=1 -run 'TestMut|Mut|Demo|Seed' ./$pkgdir >/tmp/seedwt/$ID.demo_mut.log 2>&1; then echo "RESULT $ID demo-passes-with-mutation(!)"; exit 3; fi
git apply -R "$DIFF"
if ! go test -vet=off -count=1 -run 'TestMut|Mut|Demo|Seed' ./$pkgdir >/tmp/seedwt/$ID.demo_clean.log 2>&1; then echo "RESULT $ID demo-fails-on-clean-tree(!)"; tail -5 /tmp/seedwt/$ID.demo_clean.log; exit 3; fi
rm -f "$pkgdir/zz_seed_demo_test.go"
git apply "$DIFF"
detected=""; missed=""
for P in "$@"; do
  log=/tmp/seedwt/$ID.$P.log
  VERIF_EVIDENCE_DIR=/tmp/seedwt/evidence /verif/bin/symgo check $P quick --repo "$WT" >"$log" 2>&1
  rc=$?
  if [ $rc -eq 1 ]; then detected="$detected $P"; else missed="$missed $P(rc=$rc)"; fi
done
mkdir -p /verif/seeded/$ID
cp "$DIFF" /verif/seeded/$ID/patch.diff
cp "$DEMO" /verif/seeded/$ID/demo_test.go
[ -f $OUT/mut$N.md ] && cp $OUT/mut$N.md /verif/seeded/$ID/notes.md
python3 - "$ID" "$detected" "$missed" "$*" <<'PY'
import json,sys,os,re
sid,det,miss,props=sys.argv[1:5]
d='/verif/seeded/'+sid
notes=open(d+'/notes.md').read() if os.path.exists(d+'/notes.md') else ''
needs=''
m=re.search(r'(?is)(needs|manifest|trigger)[^\n]*\n?(.{0,600})',notes)
meta={
 "seed_id": sid,
 "breaks_property": sid.split('-')[0],
 "source": "written by an independent sub-agent that saw only the property text and a scratch worktree",
 "needs_to_manifest": "see notes.md (author's own description)",
 "confirmed": "applied in a scratch worktree of /repo HEAD: go build ok, full test suite passes with the change, the demonstration test fails with the change and passes without it",
 "checks_run": [f"symgo check {p} quick --repo <scratch worktree with the change applied>" for p in props.split()],
 "detected_by": det.split(),
 "missed_by": miss.split(),
}
json.dump(meta,open(d+'/meta.json','w'),indent=1)
PY
echo "RESULT $ID confirmed detected=[$detected ] missed=[$missed ]"
for P in "$@"; do grep -m3 "VIOLATION\|assertion=" /tmp/seedwt/$ID.$P.log | cut -c1-250; done

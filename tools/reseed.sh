#!/bin/bash
# reseed.sh [seed-id ...]: re-run the owning check against every kept seeded change
# (patch applied in a scratch worktree of /repo HEAD, removed afterwards); prints one line each.
export GOFLAGS=-mod=mod GOPROXY=off GOSUMDB=off GOTOOLCHAIN=local
cd /verif/seeded
ids="$@"; [ -z "$ids" ] && ids=$(ls)
for id in $ids; do
  P=$(python3 -c "import json;print(json.load(open('$id/meta.json'))['breaks_property'] if not '$id'.startswith('R2-') else '$id'.split('-')[1])")
  WT=/tmp/seedwt/$id; rm -rf $WT; git -C /repo worktree prune
  git -C /repo worktree add -q $WT HEAD || { echo "$id worktree-failed"; continue; }
  s=$(date +%s)
  if ( cd $WT && git apply /verif/seeded/$id/patch.diff ); then
    VERIF_EVIDENCE_DIR=/tmp/seedwt/evidence /verif/bin/symgo check $P quick --repo $WT >/tmp/seedwt/$id.log 2>&1; rc=$?
  else rc=apply-failed; fi
  e=$(date +%s)
  echo "$id $P rc=$rc $((e-s))s $(grep -m1 -o 'assertion=[^ ]*' /tmp/seedwt/$id.log)"
  git -C /repo worktree remove --force $WT; rm -rf $WT
done
rm -rf /tmp/seedwt

#!/bin/bash
# reseed.sh [seed-id ...]: re-run the owning check against every kept seeded change
# (patch applied in a scratch worktree of /repo HEAD, removed afterwards); prints one line each.
export GOFLAGS=-mod=mod GOPROXY=off GOSUMDB=off GOTOOLCHAIN=local
cd /verif/seeded
ids="$@"; [ -z "$ids" ] && ids=$(ls)
for id in $ids; do
  P=$(python3 -c "import json;d=json.load(open('/verif/seeded/$id/meta.json')).get('detected_by') or [];print(d[0] if d else '')" 2>/dev/null)
  [ -z "$P" ] && P=$(echo "$id" | grep -o 'C[0-9][0-9]' | head -1)
  WT=/tmp/seedwt/$id; rm -rf $WT; git -C /repo worktree prune
  git -C /repo worktree add -q $WT HEAD || { echo "$id worktree-failed"; continue; }
  s=$(date +%s)
  if ( cd $WT && git apply /verif/seeded/$id/patch.diff ); then
    if [ -n "${CONFIRM:-}" ]; then
      # full confirmation: builds, the suite passes with the change, the demonstration fails with it and passes without
      pk=.; grep -q '^package dag' /verif/seeded/$id/demo_test.go && pk=dag
      ( cd $WT && go build ./... && go test -vet=off -count=1 ./... >/dev/null 2>&1 ) || echo "$id CONFIRM suite-fails-with-change"
      cp /verif/seeded/$id/demo_test.go $WT/$pk/zz_seed_demo_test.go
      ( cd $WT && go test -vet=off -count=1 -run 'TestMut|Mut|Demo|Seed' ./$pk >/dev/null 2>&1 ) && echo "$id CONFIRM demo-passes-with-change(!)"
      ( cd $WT && git apply -R /verif/seeded/$id/patch.diff && go test -vet=off -count=1 -run 'TestMut|Mut|Demo|Seed' ./$pk >/dev/null 2>&1 ) || echo "$id CONFIRM demo-fails-without-change(!)"
      ( cd $WT && rm -f $pk/zz_seed_demo_test.go && git apply /verif/seeded/$id/patch.diff )
    fi
    VERIF_EVIDENCE_DIR=/tmp/seedwt/evidence /verif/bin/symgo check $P quick --repo $WT >/tmp/seedwt/$id.log 2>&1; rc=$?
  else rc=apply-failed; fi
  e=$(date +%s)
  echo "$id $P rc=$rc $((e-s))s $(grep -m1 -o 'assertion=[^ ]*' /tmp/seedwt/$id.log)"
  git -C /repo worktree remove --force $WT; rm -rf $WT
done
rm -rf /tmp/seedwt

//go:build verif

package dag

// Shared scenario runner of the dag harnesses. Graph shape, task outcomes,
// retries, serial mode, parallelism limit and cancellation are symbolic
// (small-domain) choices; the order in which running tasks finish is chosen
// by the engine's scheduler (natively: enforced through gates by vYield).

import (
	"context"
	"errors"
	"fmt"
	"io"
	"strconv"
	"sync"
	"time"

	"github.com/DavidGamba/go-getoptions"
)

func vNativeReset() {
	Logger.SetOutput(io.Discard)
}

const (
	oNil = iota
	oErr
	oSkip
)

type dagEvent struct {
	enter   bool
	task    int
	attempt int
	outcome int
}

type dagScenario struct {
	n                int
	dep              [][]bool // dep[i][j]: task i depends on task j (j < i)
	outcome          [][]int  // outcome[i][k]: result of attempt k+1 of task i
	retries          int
	serial           bool
	limit            int // 0: none
	cancelBy         int // task that cancels the context while running, -1 none, -2 before Run
	cancelEarly      bool
	mu               sync.Mutex
	ranOnAfterCancel bool
	buffered         bool
	readd            bool      // every task is handed to AddTask a second time after the edges are declared
	payload          string    // written between the markers of every attempt
	writer           io.Writer // replaces the recording writer of buffered output

	log       []dagEvent
	inside    int
	maxInside int
	attempts  []int
	errs      []error
	cancelled bool
	cancelAt  int // log length when the context was cancelled
	ctx       context.Context
	graph     *Graph
	tasks     []*Task
}

type scenarioOpts struct {
	n          int
	maxRetries int
	cancel     bool
	modes      bool // serial mode and parallelism limit are symbolic too
	outcomes   int  // highest outcome of a first attempt (oNil .. oSkip)
	buffer     bool // buffered output on/off is symbolic
}

// newScenario draws the symbolic configuration.
func newScenario(o scenarioOpts) *dagScenario {
	n, maxRetries, withCancel := o.n, o.maxRetries, o.cancel
	s := &dagScenario{n: n, cancelBy: -1}
	s.dep = make([][]bool, n)
	for i := 0; i < n; i++ {
		s.dep[i] = make([]bool, n)
		for j := 0; j < i; j++ {
			s.dep[i][j] = vBool("e_" + strconv.Itoa(i) + "_" + strconv.Itoa(j))
		}
	}
	s.retries = 0
	if maxRetries > 0 {
		s.retries = vInt("retries", 0, maxRetries)
	}
	s.outcome = make([][]int, n)
	for i := 0; i < n; i++ {
		s.outcome[i] = make([]int, s.retries+1)
		for k := 0; k <= s.retries; k++ {
			hi := o.outcomes
			if k > 0 && hi > oErr {
				hi = oErr // later attempts: success or failure
			}
			s.outcome[i][k] = vInt("o_"+strconv.Itoa(i)+"_"+strconv.Itoa(k), 0, hi)
		}
	}
	if o.modes {
		s.serial = vBool("serial")
		s.limit = vInt("limit", 0, 2)
	}
	if o.buffer {
		s.buffered = vBool("buffered")
	}
	if withCancel {
		s.cancelBy = vInt("cancelby", -2, n-1)
	}
	s.attempts = make([]int, n)
	s.errs = make([]error, n)
	for i := range s.errs {
		s.errs[i] = fmt.Errorf("task %d failed", i)
	}
	return s
}

func (s *dagScenario) taskFn(i int) getoptions.CommandFn {
	return func(ctx context.Context, opt *getoptions.GetOpt, args []string) error {
		s.mu.Lock() // natively the task functions run in parallel
		s.attempts[i]++
		k := s.attempts[i]
		s.log = append(s.log, dagEvent{enter: true, task: i, attempt: k})
		vEvent("enter " + strconv.Itoa(i))
		s.inside++
		if s.inside > s.maxInside {
			s.maxInside = s.inside
		}
		s.mu.Unlock()
		if s.buffered {
			fmt.Fprintf(Stdout(ctx), "<%d.%d>%s", i, k, s.payload)
		}
		if s.cancelEarly && s.cancelBy == i && !s.cancelled {
			s.mu.Lock()
			s.cancelled = true
			s.cancelAt = len(s.log)
			s.mu.Unlock()
			vCancel(s.ctx)
			if !vSymbolic() {
				// natively: keep running long enough for the scheduler loop (1 ms tick)
				// to go idle with the context cancelled
				time.Sleep(60 * time.Millisecond)
				s.ranOnAfterCancel = true
			}
		}
		vYield(i)
		s.mu.Lock()
		if s.cancelBy == i && !s.cancelled {
			s.cancelled = true
			s.cancelAt = len(s.log)
			vCancel(s.ctx)
			if !vSymbolic() {
				// natively: stay in flight long enough for the scheduler loop (1 ms
				// tick) to go idle with the context cancelled, whatever the load
				s.mu.Unlock()
				time.Sleep(60 * time.Millisecond)
				s.mu.Lock()
				s.ranOnAfterCancel = true
			}
		}
		out := oErr
		if k-1 < len(s.outcome[i]) {
			out = s.outcome[i][k-1]
		}
		if s.buffered {
			fmt.Fprintf(Stdout(ctx), "</%d.%d>", i, k)
		}
		s.inside--
		s.log = append(s.log, dagEvent{task: i, attempt: k, outcome: out})
		vEvent("exit " + strconv.Itoa(i) + " outcome " + strconv.Itoa(out))
		s.mu.Unlock()
		switch out {
		case oNil:
			return nil
		case oSkip:
			return ErrorSkipParents
		}
		return s.errs[i]
	}
}

// build constructs the graph through the public API.
func (s *dagScenario) build() {
	s.graph = NewGraph("g")
	s.tasks = make([]*Task, s.n)
	for i := 0; i < s.n; i++ {
		s.tasks[i] = NewTask("t"+strconv.Itoa(i), s.taskFn(i))
		s.graph.AddTask(s.tasks[i])
	}
	for i := 0; i < s.n; i++ {
		for j := 0; j < i; j++ {
			if s.dep[i][j] {
				s.graph.TaskDependsOn(s.tasks[i], s.tasks[j])
			}
		}
		if s.retries > 0 {
			s.graph.TaskRetries(s.tasks[i], s.retries)
		}
	}
	if s.readd {
		for i := 0; i < s.n; i++ {
			s.graph.AddTask(s.tasks[i])
		}
	}
	if s.serial {
		s.graph.SetSerial()
	}
	if s.limit > 0 {
		s.graph.SetMaxParallel(s.limit)
	}
	if s.buffered {
		if s.writer != nil {
			s.graph.SetOutputBuffer(s.writer)
		} else {
			s.graph.SetOutputBuffer(vWriter("out"))
		}
	}
}

func (s *dagScenario) run() error {
	s.ctx = vNewContext()
	if s.cancelBy == -2 {
		s.cancelled = true
		vCancel(s.ctx)
	}
	vPhase("run")
	return s.graph.Run(s.ctx, nil, nil)
}

// final outcome of a task: -1 never entered, else the outcome of its last attempt
func (s *dagScenario) final(i int) int {
	r := -1
	for _, e := range s.log {
		if !e.enter && e.task == i {
			r = e.outcome
		}
	}
	return r
}

func (s *dagScenario) entered(i int) bool { return s.attempts[i] > 0 }

// dependsOn: transitive dependency
func (s *dagScenario) dependsOn(i, j int) bool {
	if s.dep[i][j] {
		return true
	}
	for k := 0; k < i; k++ {
		if s.dep[i][k] && k > j && s.dependsOn(k, j) {
			return true
		}
	}
	return false
}

// orderingAsserts: C13's claims on the event log.
func (s *dagScenario) orderingAsserts() {
	exitedNil := make([]bool, s.n)
	open := make([]int, s.n)  // attempt currently inside, 0 none
	done := make([]bool, s.n) // a nil attempt has been seen
	for _, e := range s.log {
		if e.enter {
			for j := 0; j < e.task; j++ {
				if s.dep[e.task][j] {
					vAssert("enter-after-dependencies-succeeded", exitedNil[j])
				}
			}
			vAssert("attempts-sequential", open[e.task] == 0)
			vAssert("attempts-numbered", e.attempt <= s.retries+1)
			vAssert("no-attempt-after-success", !done[e.task])
			open[e.task] = e.attempt
		} else {
			open[e.task] = 0
			if e.outcome == oNil {
				exitedNil[e.task] = true
				done[e.task] = true
			}
		}
	}
	for i := 0; i < s.n; i++ {
		vAssert("attempts-at-most-retries-plus-one", s.attempts[i] <= s.retries+1)
	}
}

// errorsOf unpacks the *Errors value returned by Run.
func errorsOf(err error) []error {
	var es *Errors
	if errors.As(err, &es) {
		return es.Errors
	}
	return nil
}

// exitIndex: position in the log of the last exit event of task j, -1 if none.
func (s *dagScenario) exitIndex(j int) int {
	r := -1
	for k, e := range s.log {
		if !e.enter && e.task == j {
			r = k
		}
	}
	return r
}

// slowWriter passes everything on to a recording writer; every Write is a
// scheduling point (natively it also takes a moment), so that whatever the
// library does between two Write calls can be interleaved with other tasks.
type slowWriter struct {
	w io.Writer
	n *int
}

func (y slowWriter) Write(p []byte) (int, error) {
	*y.n++
	vYieldAgain(100 + *y.n)
	if !vSymbolic() {
		time.Sleep(2 * time.Millisecond)
	}
	return y.w.Write(p)
}

// failingWriter refuses everything.
type failingWriter struct{}

var errWriterFailed = errors.New("writer failed")

func (failingWriter) Write(p []byte) (int, error) { return 0, errWriterFailed }

//go:build verif

package dag

func vNativeReset() {}

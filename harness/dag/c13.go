//go:build verif

package dag

// C13: a task starts only after all its dependencies have finished successfully.

// All shapes of 3 tasks, every outcome of every task, every completion order.
func VerifC13_Ordering() {
	vNativeReset()
	n := 3
	if vThorough() {
		n = 4
	}
	s := newScenario(scenarioOpts{n: n, outcomes: oSkip, buffer: true})
	s.build()
	err := s.run()
	vObserve("failed", err != nil)
	s.orderingAsserts()
	vReach("ran")
}

// Retries: up to 2 extra attempts, fail-then-succeed and fail-for-good, in
// parallel, bounded and serial mode.
func VerifC13_Retries() {
	vNativeReset()
	s := newScenario(scenarioOpts{n: 2, maxRetries: 2, modes: true, outcomes: oErr, buffer: true})
	s.build()
	err := s.run()
	vObserve("failed", err != nil)
	s.orderingAsserts()
	vReach("ran")
}

// ErrorSkipParents in graphs of 4 tasks (diamonds, shared and separate
// dependents): whatever the completion order, no task above a skipping task is
// entered, and no task is entered before its dependencies succeeded.
func VerifC13_SkipDiamonds() {
	vNativeReset()
	s := newScenario(scenarioOpts{n: 4, outcomes: oNil})
	s.outcome[0][0] = vInt("skip0", 0, 1) * oSkip // nil or skip
	s.outcome[1][0] = vInt("skip1", 0, 1) * oSkip
	s.build()
	err := s.run()
	vObserve("failed", err != nil)
	s.orderingAsserts()
	vAssert("skips-alone-do-not-fail-the-run", err == nil)
	vReach("ran")
}

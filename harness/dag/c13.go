//go:build verif

package dag

import (
	"context"
	"errors"

	"github.com/DavidGamba/go-getoptions"
)

// C13: a task starts only after all its dependencies have finished successfully.

// All shapes of 3 tasks, every outcome of every task, every completion order.
func VerifC13_Ordering() {
	vNativeReset()
	n := 3
	if vThorough() {
		n = 4
	}
	s := newScenario(scenarioOpts{n: n, outcomes: oSkip, buffer: true})
	s.build()
	err := s.run()
	vObserve("failed", err != nil)
	s.orderingAsserts()
	vReach("ran")
}

// Retries: up to 2 extra attempts, fail-then-succeed and fail-for-good, in
// parallel, bounded and serial mode.
func VerifC13_Retries() {
	vNativeReset()
	s := newScenario(scenarioOpts{n: 2, maxRetries: 2, modes: true, outcomes: oErr, buffer: true})
	s.build()
	err := s.run()
	vObserve("failed", err != nil)
	s.orderingAsserts()
	vReach("ran")
}

// ErrorSkipParents in graphs of 4 tasks (diamonds, shared and separate
// dependents): whatever the completion order, no task above a skipping task is
// entered, and no task is entered before its dependencies succeeded.
func VerifC13_SkipDiamonds() {
	vNativeReset()
	s := newScenario(scenarioOpts{n: 4, outcomes: oNil})
	s.outcome[0][0] = vInt("skip0", 0, 1) * oSkip // nil or skip
	s.outcome[1][0] = vInt("skip1", 0, 1) * oSkip
	s.build()
	err := s.run()
	vObserve("failed", err != nil)
	s.orderingAsserts()
	vAssert("skips-alone-do-not-fail-the-run", err == nil)
	vReach("ran")
}

// Retries with SYMBOLIC numbers (decided by the solver): a task that fails its
// first F attempts, with R retries allowed, is entered exactly min(F,R)+1
// times, one attempt after the other, and Run fails exactly when F > R.
func VerifC13_RetriesSymbolic() {
	vNativeReset()
	R := vInt("R", 0, 1000)
	F := vInt("F", 0, 1000)
	vAssume(R <= 4) // unwind bound of the retry loop
	attempts := 0
	inside := 0
	overlapped := false
	t := NewTask("t", func(ctx context.Context, opt *getoptions.GetOpt, args []string) error {
		attempts++
		inside++
		if inside > 1 {
			overlapped = true
		}
		vYield(0)
		inside--
		if attempts <= F {
			return errors.New("fails")
		}
		return nil
	})
	g := NewGraph("g")
	g.AddTask(t)
	g.TaskRetries(t, R)
	vPhase("run")
	err := g.Run(vNewContext(), nil, nil)
	vObserve("attempts", attempts)
	want := F + 1
	if F > R {
		want = R + 1
	}
	vAssert("symbolic/attempts", attempts == want)
	vAssert("symbolic/at-most-retries-plus-one", attempts <= R+1)
	vAssert("symbolic/sequential", !overlapped)
	vAssert("symbolic/fails-iff-more-failures-than-retries", (err != nil) == (F > R))
	vReach("ran")
}

// The writer of the buffered output refuses every Write: attempts still run one
// after the other, at most retries+1 times, and never again after a success.
func VerifC13_WriterFails() {
	vNativeReset()
	s := newScenario(scenarioOpts{n: 2, maxRetries: 1, outcomes: oErr})
	s.buffered = true
	s.writer = failingWriter{}
	s.build()
	err := s.run()
	vObserve("failed", err != nil)
	s.orderingAsserts()
	vReach("ran")
}

// A retry count below zero (SYMBOLIC) must not switch a task off: its dependent
// is entered only after the task itself was entered and returned nil.
func VerifC13_NegativeRetries() {
	vNativeReset()
	R := vInt("R", -1000, -1)
	tEntered, tReturnedNil, dEnteredEarly, dEntered := 0, false, false, 0
	t := NewTask("t", func(ctx context.Context, opt *getoptions.GetOpt, args []string) error {
		tEntered++
		vYield(0)
		tReturnedNil = true
		return nil
	})
	d := NewTask("d", func(ctx context.Context, opt *getoptions.GetOpt, args []string) error {
		dEntered++
		if !tReturnedNil {
			dEnteredEarly = true
		}
		vYield(1)
		return nil
	})
	g := NewGraph("g")
	g.AddTask(t)
	g.AddTask(d)
	g.TaskDependsOn(d, t)
	g.TaskRetries(t, R)
	vPhase("run")
	err := g.Run(vNewContext(), nil, nil)
	vObserve("failed", err != nil)
	vObserve("t", tEntered)
	vAssert("negative-retries/dependent-only-after-dependency-returned-nil", !dEnteredEarly)
	if err == nil {
		vAssert("negative-retries/every-task-ran-once", tEntered == 1 && dEntered == 1)
	}
	vReach("ran")
}

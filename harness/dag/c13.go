//go:build verif

package dag

// C13: a task starts only after all its dependencies have finished successfully.

// All shapes of 3 tasks, every outcome of every task, every completion order.
func VerifC13_Ordering() {
	vNativeReset()
	s := newScenario(scenarioOpts{n: 3, outcomes: oSkip, buffer: true})
	s.build()
	err := s.run()
	vObserve("failed", err != nil)
	s.orderingAsserts()
	vReach("ran")
}

// Retries: up to 2 extra attempts, fail-then-succeed and fail-for-good, in
// parallel, bounded and serial mode.
func VerifC13_Retries() {
	vNativeReset()
	s := newScenario(scenarioOpts{n: 2, maxRetries: 2, modes: true, outcomes: oErr, buffer: true})
	s.build()
	err := s.run()
	vObserve("failed", err != nil)
	s.orderingAsserts()
	vReach("ran")
}

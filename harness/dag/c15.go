//go:build verif

package dag

// C15: concurrency never exceeds the configured bound; serial means one at a time.

import (
	"context"
	"fmt"
	"strings"

	"github.com/DavidGamba/go-getoptions"
)

// Four mutually independent tasks contend for 1-3 slots (or serial mode);
// tasks 0 and 1 may fail their first attempt and be retried (a retried attempt
// still holds its slot); every completion order.
func VerifC15_Bound() {
	vNativeReset()
	s := &dagScenario{n: 4, cancelBy: -1}
	s.dep = make([][]bool, 4)
	for i := range s.dep {
		s.dep[i] = make([]bool, 4)
	}
	s.dep[3][2] = vBool("e_3_2")
	s.retries = vInt("retries", 0, 1)
	s.outcome = make([][]int, 4)
	for i := range s.outcome {
		s.outcome[i] = make([]int, s.retries+1)
	}
	s.outcome[0][0] = vInt("o_0_0", 0, 1)
	s.outcome[1][0] = vInt("o_1_0", 0, 1)
	s.serial = vBool("serial")
	s.limit = vInt("limit", 1, 3)
	s.attempts = make([]int, 4)
	s.errs = make([]error, 4)
	for i := range s.errs {
		s.errs[i] = fmt.Errorf("task %d failed", i)
	}
	s.build()
	err := s.run()
	vObserve("failed", err != nil)
	if s.serial {
		vAssert("serial-one-at-a-time", s.maxInside <= 1)
	}
	vAssert("never-more-than-the-limit", s.maxInside <= s.limit)
	s.orderingAsserts()
	vReach("ran")
}

// The bound also holds while the context is being cancelled: three independent
// tasks and one dependent contend for 1-2 slots, any of them cancels the
// context when it starts or when it ends.
func VerifC15_BoundUnderCancellation() {
	vNativeReset()
	s := &dagScenario{n: 4}
	s.dep = make([][]bool, 4)
	for i := range s.dep {
		s.dep[i] = make([]bool, 4)
	}
	s.dep[3][0] = vBool("e_3_0")
	s.outcome = make([][]int, 4)
	for i := range s.outcome {
		s.outcome[i] = make([]int, 1)
	}
	s.limit = vInt("limit", 1, 2)
	s.cancelBy = vInt("cancelby", 0, 2)
	s.cancelEarly = vBool("cancelearly")
	s.attempts = make([]int, 4)
	s.errs = make([]error, 4)
	for i := range s.errs {
		s.errs[i] = fmt.Errorf("task %d failed", i)
	}
	s.build()
	err := s.run()
	vObserve("failed", err != nil)
	vAssert("never-more-than-the-limit-under-cancellation", s.maxInside <= s.limit)
	s.orderingAsserts()
	vReach("ran")
}

// Buffered output: each attempt's output reaches the writer as one contiguous block.
func VerifC15_BufferedOutput() {
	vNativeReset()
	s := newScenario(scenarioOpts{n: 3, maxRetries: 1, outcomes: oErr})
	s.buffered = true
	s.build()
	_ = s.run()
	out := vWritten("out")
	vObserve("outlen", len(out))
	// every opening marker is directly followed by its closing marker
	rest := out
	ok := true
	blocks := 0
	for rest != "" && ok {
		if !strings.HasPrefix(rest, "<") {
			ok = false
			break
		}
		end := strings.Index(rest, ">")
		tag := rest[1:end]
		closing := "</" + tag + ">"
		rest = rest[end+1:]
		if !strings.HasPrefix(rest, closing) {
			ok = false
			break
		}
		rest = rest[len(closing):]
		blocks++
	}
	vAssert("attempt-output-contiguous", ok)
	total := 0
	for _, a := range s.attempts {
		total += a
	}
	vAssert("every-attempt-flushed", blocks == total)
	vReach("ran")
}

// The same for attempts whose output is large (100 kB each) and a writer whose
// Write calls are scheduling points: however the library hands the block to
// the writer, the blocks of two tasks that finish together do not mix.
func VerifC15_BufferedLargeOutput() {
	vNativeReset()
	s := newScenario(scenarioOpts{n: 2, outcomes: oNil})
	s.buffered = true
	s.payload = strings.Repeat("x", 100000)
	writes := 0
	s.writer = slowWriter{w: vWriter("out"), n: &writes}
	s.build()
	err := s.run()
	vAssert("no-error", err == nil)
	out := vWritten("out")
	vObserve("outlen", len(out))
	rest := out
	ok := true
	blocks := 0
	for rest != "" && ok {
		if !strings.HasPrefix(rest, "<") {
			ok = false
			break
		}
		end := strings.Index(rest, ">")
		tag := rest[1:end]
		whole := "<" + tag + ">" + s.payload + "</" + tag + ">"
		if !strings.HasPrefix(rest, whole) {
			ok = false
			break
		}
		rest = rest[len(whole):]
		blocks++
	}
	vAssert("large-attempt-output-contiguous", ok)
	vAssert("every-attempt-flushed", blocks == 2)
	vReach("ran")
}

// A Task shared by two graphs that run concurrently never executes twice at
// the same time (either graph may be serial).
func VerifC15_SharedTask() {
	vNativeReset()
	serialA := vBool("serialA")
	serialB := vBool("serialB")
	redefined := vBool("redefined") // graph b first knows the ID through a placeholder task
	inside, maxInside, runs := 0, 0, 0
	shared := NewTask("shared", func(ctx context.Context, opt *getoptions.GetOpt, args []string) error {
		inside++
		runs++
		if inside > maxInside {
			maxInside = inside
		}
		vYield(runs)
		inside--
		return nil
	})
	other := NewTask("other", func(ctx context.Context, opt *getoptions.GetOpt, args []string) error {
		vYield(10)
		return nil
	})
	ga, gb := NewGraph("a"), NewGraph("b")
	ga.AddTask(shared)
	if redefined {
		gb.AddTask(NewTask("shared", func(ctx context.Context, opt *getoptions.GetOpt, args []string) error { return nil }))
	}
	gb.AddTask(shared)
	gb.AddTask(other)
	if serialA {
		ga.SetSerial()
	}
	if serialB {
		gb.SetSerial()
	}
	vPhase("run")
	errs := make(chan error)
	go func() { errs <- ga.Run(vNewContext(), nil, nil) }()
	go func() { errs <- gb.Run(vNewContext(), nil, nil) }()
	e1 := <-errs
	e2 := <-errs
	vAssert("both-runs-succeed", e1 == nil && e2 == nil)
	vAssert("shared-task-ran-in-both-graphs", runs == 2)
	vAssert("shared-task-never-overlaps-itself", maxInside <= 1)
	vReach("ran")
}

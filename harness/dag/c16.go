//go:build verif

package dag

// C16: Run always finishes, keeps ready tasks running, and rejects cycles up front.

import (
	"context"
	"errors"
	"strconv"

	"github.com/DavidGamba/go-getoptions"
)

// Construction histories: a sequence of calls, each a symbolic choice of
// AddTask / TaskDependsOn / TaskRetries over 3 tasks (re-adds, duplicate and
// self edges included), then Run with succeeding tasks. Run must return (the
// engine declares a hang when the scheduler loop spins with nothing in flight).
func VerifC16_Histories() {
	vNativeReset()
	steps := 3
	if vThorough() {
		steps = 4
	}
	entered := make([]int, 3)
	tasks := make([]*Task, 3)
	for i := range tasks {
		i := i
		tasks[i] = NewTask("t"+strconv.Itoa(i), func(ctx context.Context, opt *getoptions.GetOpt, args []string) error {
			entered[i]++
			vYield(i)
			return nil
		})
	}
	g := NewGraph("g")
	edges := map[[2]int]bool{}
	added := map[int]bool{}
	defErr := false
	for k := 0; k < steps; k++ {
		op := vInt("op"+strconv.Itoa(k), 0, 2)
		a := vInt("a"+strconv.Itoa(k), 0, 2)
		switch op {
		case 0:
			g.AddTask(tasks[a])
			added[a] = true
		case 1:
			b := vInt("b"+strconv.Itoa(k), 0, 2)
			if edges[[2]int{a, b}] {
				defErr = true // a duplicate dependency is a definition error
			}
			g.TaskDependsOn(tasks[a], tasks[b])
			edges[[2]int{a, b}] = true
			added[a], added[b] = true, true
		case 2:
			g.TaskRetries(tasks[a], 1)
			added[a] = true
		}
	}
	// is there a cycle among the declared edges?
	reach := map[[2]int]bool{}
	for e := range edges {
		reach[e] = true
	}
	for k := 0; k < 3; k++ {
		for i := 0; i < 3; i++ {
			for j := 0; j < 3; j++ {
				if reach[[2]int{i, k}] && reach[[2]int{k, j}] {
					reach[[2]int{i, j}] = true
				}
			}
		}
	}
	cyclic := reach[[2]int{0, 0}] || reach[[2]int{1, 1}] || reach[[2]int{2, 2}]
	vPhase("run")
	err := g.Run(vNewContext(), nil, nil)
	vObserve("failed", err != nil)
	total := entered[0] + entered[1] + entered[2]
	switch {
	case cyclic:
		vAssert("cycle/rejected", err != nil)
		vAssert("cycle/no-task-started", total == 0)
		if !defErr {
			vAssert("cycle/error-value", errors.Is(err, ErrorGraphHasCycle))
		}
		vReach("cycle")
	case defErr:
		vAssert("definition-error/rejected", err != nil)
		vAssert("definition-error/no-task-started", total == 0)
		vReach("definition-error")
	default:
		vAssert("acyclic/succeeds", err == nil)
		for i := 0; i < 3; i++ {
			if added[i] {
				vAssert("acyclic/every-task-ran-once", entered[i] == 1)
			} else {
				vAssert("acyclic/unknown-task-not-run", entered[i] == 0)
			}
		}
		vReach("acyclic")
	}
}

// DepthFirstSort of every acyclic shape of 3 tasks (plus one extra edge that
// may close a cycle): each vertex once, dependencies first.
func VerifC16_Sort() {
	vNativeReset()
	s := newScenario(scenarioOpts{n: 3, outcomes: oNil})
	back := vBool("backedge") // t0 depends on t2: a cycle when t2 (transitively) depends on t0
	s.build()
	if back {
		s.graph.TaskDependsOn(s.tasks[0], s.tasks[2])
	}
	vPhase("run")
	sorted, err := s.graph.DepthFirstSort()
	cyclic := back && s.dependsOn(2, 0)
	if cyclic {
		vAssert("sort/cycle-reported", errors.Is(err, ErrorGraphHasCycle))
		vReach("cycle")
		return
	}
	vAssert("sort/no-error", err == nil)
	vAssert("sort/every-vertex-once", len(sorted) == 3)
	pos := map[ID]int{}
	for k, v := range sorted {
		_, dup := pos[v.ID]
		vAssert("sort/no-duplicate", !dup)
		pos[v.ID] = k
	}
	for i := 0; i < 3; i++ {
		for j := 0; j < i; j++ {
			if s.dep[i][j] {
				vAssert("sort/dependencies-first", pos[s.tasks[j].ID] < pos[s.tasks[i].ID])
			}
		}
	}
	if back {
		vAssert("sort/dependencies-first", pos[s.tasks[2].ID] < pos[s.tasks[0].ID])
	}
	vReach("sorted")
}

// Termination and work conservation over all shapes, outcomes, modes and
// completion orders: Run returns, and when nothing failed every task ran.
func VerifC16_Progress() {
	vNativeReset()
	s := newScenario(scenarioOpts{n: 3, maxRetries: 1, modes: true, outcomes: oErr, buffer: vThorough()})
	s.progress()
}

// The same with buffered output always on (two tasks in the quick tier).
func VerifC16_ProgressBuffered() {
	vNativeReset()
	n := 2
	if vThorough() {
		n = 3
	}
	s := newScenario(scenarioOpts{n: n, maxRetries: 1, modes: true, outcomes: oErr})
	s.buffered = true
	s.progress()
}

func (s *dagScenario) progress() {
	s.build()
	// work conservation: whenever the scheduler loop goes idle and nothing has
	// failed, a task whose dependencies have all succeeded is running or done,
	// unless the capacity is used up
	vOnIdle(func() {
		vEvent("idle inside=" + strconv.Itoa(s.inside))
		for _, e := range s.log {
			if !e.enter && e.outcome == oErr && e.attempt == s.retries+1 {
				return // a failure has occurred
			}
		}
		for i := 0; i < s.n; i++ {
			if s.entered(i) {
				continue
			}
			ready := true
			for j := 0; j < i; j++ {
				if s.dep[i][j] && s.final(j) != oNil {
					ready = false
				}
			}
			if !ready {
				continue
			}
			full := (s.limit > 0 && s.inside >= s.limit) || (s.serial && s.inside >= 1)
			vAssert("progress/ready-task-started-while-capacity-remains", full)
		}
	})
	err := s.run()
	vObserve("failed", err != nil)
	anyFailed := false
	for i := 0; i < s.n; i++ {
		if s.final(i) == oErr {
			anyFailed = true
		}
	}
	if !anyFailed {
		vAssert("progress/no-error", err == nil)
		for i := 0; i < s.n; i++ {
			vAssert("progress/every-task-ran", s.final(i) == oNil)
		}
	}
	vReach("ran")
}

// One-step lemma with a fully SYMBOLIC status vector (decided by the solver,
// no enumeration of statuses): the vertex selection returns a vertex only if
// it is pending (or marked skip) and none of its dependencies is pending or in
// progress, reports "all done" exactly when every vertex is done, and in serial
// mode returns nothing to launch while anything is in progress - for every
// graph shape and every map iteration order. It calls an unexported function;
// if a refactor removes it the harness no longer compiles and the check says so.
func VerifC16_SelectionLemma() {
	vNativeReset()
	s := newScenario(scenarioOpts{n: 3, outcomes: oNil})
	s.serial = vBool("serial")
	s.build()
	st := make([]int, s.n)
	for i := 0; i < s.n; i++ {
		st[i] = vInt("status"+strconv.Itoa(i), 0, 1000) // symbolic: too wide to be enumerated
		vAssume(st[i] <= int(runDone))
		s.graph.Vertices[s.tasks[i].ID].status = runStatus(st[i])
	}
	vPhase("run")
	vMapOrder("explore")
	v, allDone, ok := s.graph.getNextVertex()
	vMapOrder("insertion")
	everyDone := true
	anyInProgress := false
	for i := 0; i < s.n; i++ {
		everyDone = vAnd(everyDone, st[i] == int(runDone))
		anyInProgress = vOr(anyInProgress, st[i] == int(runInProgress))
	}
	vAssert("lemma/all-done-iff-every-vertex-done", allDone == everyDone)
	if allDone {
		vAssert("lemma/nothing-to-launch-when-done", !ok)
	}
	if ok {
		k := -1
		for i := 0; i < s.n; i++ {
			if v == s.graph.Vertices[s.tasks[i].ID] {
				k = i
			}
		}
		vAssert("lemma/returns-a-vertex-of-the-graph", k >= 0)
		if k >= 0 {
			vAssert("lemma/selected-vertex-not-started", vOr(st[k] == int(runPending), st[k] == int(runSkip)))
			for j := 0; j < k; j++ {
				if s.dep[k][j] {
					vAssert("lemma/no-dependency-pending-or-running", vAnd(st[j] != int(runPending), st[j] != int(runInProgress)))
				}
			}
		}
		if s.serial {
			vAssert("lemma/serial-launches-nothing-while-running", !anyInProgress)
		}
		vReach("selected")
	}
	vReach("lemma")
}

// A writer for the buffered output that refuses every Write: Run still
// returns under every completion order, and every task still runs.
func VerifC16_WriterFails() {
	vNativeReset()
	n := 2
	if vThorough() {
		n = 3
	}
	s := newScenario(scenarioOpts{n: n, maxRetries: 1, outcomes: oErr})
	s.buffered = true
	s.writer = failingWriter{}
	s.build()
	err := s.run()
	vObserve("failed", err != nil)
	anyFailed := false
	for i := 0; i < s.n; i++ {
		if s.final(i) == oErr {
			anyFailed = true
		}
	}
	if !anyFailed {
		for i := 0; i < s.n; i++ {
			vAssert("writer-fails/every-task-ran", s.final(i) == oNil)
		}
	}
	vReach("ran")
}

// A task without a function, handed to AddTask before or after a proper task of
// the same ID (or as a new ID): the definition is rejected, Run returns an
// error without starting anything - it never calls the missing function.
func VerifC16_NilFnTask() {
	vNativeReset()
	order := vInt("order", 0, 3)
	entered := 0
	fn := func(ctx context.Context, opt *getoptions.GetOpt, args []string) error {
		entered++
		vYield(entered)
		return nil
	}
	g := NewGraph("g")
	a := NewTask("a", fn)
	b := NewTask("b", fn)
	switch order {
	case 0: // a proper task first, then the same ID without a function
		g.AddTask(a)
		g.AddTask(NewTask("a", nil))
	case 1: // the other way round
		g.AddTask(NewTask("a", nil))
		g.AddTask(a)
	case 2: // known through an edge, then without a function
		g.AddTask(a)
		g.AddTask(b)
		g.TaskDependsOn(b, a)
		g.AddTask(NewTask("a", nil))
	case 3: // a new ID without a function next to a proper task
		g.AddTask(a)
		g.AddTask(NewTask("c", nil))
	}
	vPhase("run")
	err := g.Run(vNewContext(), nil, nil)
	vObserve("failed", err != nil)
	vAssert("nil-fn/run-returns-an-error", err != nil)
	vAssert("nil-fn/nothing-started", entered == 0)
	vReach("ran")
}

// Edges declared between known tasks AFTER the graph was sorted or run once are
// seen by the next DepthFirstSort / Run: a cycle made that way is rejected.
func VerifC16_SortThenEdges() {
	vNativeReset()
	first := vInt("first", 0, 1) // what happens in between: DepthFirstSort or a complete Run
	cyc := vBool("cycle")
	entered := 0
	fn := func(ctx context.Context, opt *getoptions.GetOpt, args []string) error {
		entered++
		vYield(entered)
		return nil
	}
	g := NewGraph("g")
	a, b := NewTask("a", fn), NewTask("b", fn)
	g.AddTask(a)
	g.AddTask(b)
	if first == 0 {
		_, err := g.DepthFirstSort()
		vAssert("sort-then-edges/first-sort-ok", err == nil)
	} else {
		err := g.Run(vNewContext(), nil, nil)
		vAssert("sort-then-edges/first-run-ok", err == nil)
	}
	g.TaskDependsOn(a, b)
	if cyc {
		g.TaskDependsOn(b, a)
	}
	vPhase("run")
	sorted, serr := g.DepthFirstSort()
	before := entered
	rerr := g.Run(vNewContext(), nil, nil)
	vObserve("serr", serr != nil)
	vObserve("rerr", rerr != nil)
	if cyc {
		vAssert("sort-then-edges/cycle-seen-by-sort", errors.Is(serr, ErrorGraphHasCycle))
		vAssert("sort-then-edges/cycle-rejected-by-run", rerr != nil && entered == before)
	} else {
		vAssert("sort-then-edges/sort-ok", serr == nil && len(sorted) == 2)
		if serr == nil && len(sorted) == 2 {
			vAssert("sort-then-edges/dependency-first", sorted[0].ID == "b" && sorted[1].ID == "a")
		}
	}
	vReach("ran")
}

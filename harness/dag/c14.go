//go:build verif

package dag

// C14: failures, skips and cancellation stop dependents and are fully reported.

import (
	"errors"
)

// resultAsserts: what Run must return for the outcomes that happened (no cancellation).
func (s *dagScenario) resultAsserts(err error) {
	failed := make([]bool, s.n)  // final attempt returned an error
	skipper := make([]bool, s.n) // returned ErrorSkipParents
	for i := 0; i < s.n; i++ {
		switch s.final(i) {
		case oErr:
			failed[i] = true
		case oSkip:
			skipper[i] = true
		}
	}
	anyFailed := false
	for i := 0; i < s.n; i++ {
		anyFailed = anyFailed || failed[i]
		for j := 0; j < i; j++ {
			if s.dependsOn(i, j) && (failed[j] || skipper[j]) {
				vAssert("dependents-of-failed-or-skipping-task-never-start", !s.entered(i))
			}
		}
	}
	es := errorsOf(err)
	if !anyFailed {
		// skips alone do not make Run fail
		vAssert("nil-iff-no-failure", err == nil)
		return
	}
	vAssert("error-when-a-task-failed", err != nil)
	vAssert("error-is-Errors-value", es != nil)
	for i := 0; i < s.n; i++ {
		if failed[i] {
			found := false
			for _, e := range es {
				if errors.Is(e, s.errs[i]) {
					found = true
				}
			}
			vAssert("failed-task-error-reported", found)
		}
	}
	// every other task that was never started is reported as skipped, unless it
	// sits above a task that returned ErrorSkipParents
	wantSkipped := 0
	for i := 0; i < s.n; i++ {
		if s.entered(i) {
			continue
		}
		underSkipper := false
		for j := 0; j < i; j++ {
			if s.dependsOn(i, j) && skipper[j] {
				underSkipper = true
			}
		}
		if !underSkipper {
			wantSkipped++
		}
	}
	gotSkipped := 0
	for _, e := range es {
		if errors.Is(e, ErrorTaskSkipped) {
			gotSkipped++
		}
	}
	vAssert("never-started-tasks-reported-skipped", gotSkipped == wantSkipped)
}

func VerifC14_Failures() {
	vNativeReset()
	n := 3
	if vThorough() {
		n = 4
	}
	s := newScenario(scenarioOpts{n: n, outcomes: oSkip, buffer: true})
	s.build()
	err := s.run()
	vObserve("failed", err != nil)
	s.resultAsserts(err)
	vReach("ran")
}

// ErrorSkipParents (and, in the thorough tier, failures) at the two lowest tasks
// of every graph of 4 tasks - diamonds, shared and separate dependents - under
// every completion order: nothing above a skipping or failed task starts and
// the report is complete.
func VerifC14_SkipDiamonds() {
	vNativeReset()
	s := newScenario(scenarioOpts{n: 4, outcomes: oNil})
	if vThorough() {
		s.outcome[0][0] = vInt("out0", 0, 2)
		s.outcome[1][0] = vInt("out1", 0, 2)
	} else {
		s.outcome[0][0] = vInt("skip0", 0, 1) * oSkip // nil or skip
		s.outcome[1][0] = vInt("skip1", 0, 1) * oSkip
	}
	s.build()
	err := s.run()
	vObserve("failed", err != nil)
	s.resultAsserts(err)
	vReach("ran")
}

func VerifC14_FailuresWithRetries() {
	vNativeReset()
	s := newScenario(scenarioOpts{n: 2, maxRetries: 1, modes: true, outcomes: oSkip, buffer: true})
	s.readd = vBool("readd") // the tasks are added once more after the edges were declared
	s.build()
	err := s.run()
	vObserve("failed", err != nil)
	s.resultAsserts(err)
	vReach("ran")
}

// Cancellation by a running task or before Run: nothing is entered afterwards
// except what was already running, everything that entered also exited before
// Run returns, and an unexplained never-started task means Run reports an error.
func VerifC14_Cancellation() {
	vNativeReset()
	s := newScenario(scenarioOpts{n: 3, cancel: true, modes: true, outcomes: oNil})
	vAssume(s.cancelBy != -1)
	s.cancelEarly = vBool("cancelearly") // the task cancels when it starts (and keeps running) or when it ends
	s.build()
	// "observed": the scheduler loop went idle at least once after the
	// cancellation (its loop polls the context in every such iteration)
	idleAfterCancel := false
	vOnIdle(func() {
		if s.cancelled {
			idleAfterCancel = true
		}
	})
	err := s.run()
	if idleAfterCancel || s.ranOnAfterCancel {
		vAssert("cancellation-seen-by-an-idle-scheduler-is-reported", err != nil)
	}
	vObserve("failed", err != nil)
	if s.cancelBy == -2 {
		vAssert("cancelled-before-run/error", err != nil)
	}
	// all started tasks finished
	for i := 0; i < s.n; i++ {
		if s.entered(i) {
			vAssert("in-flight-tasks-finish", s.final(i) >= 0)
		}
	}
	if s.cancelled && s.cancelBy >= 0 {
		// after the cancelling task has returned and the cancellation has been seen,
		// nothing new starts: a task entered after the cancel point must have been
		// launched before (it can only be one that was ready at that time)
		for k := s.cancelAt; k < len(s.log); k++ {
			e := s.log[k]
			if e.enter {
				ready := true
				for j := 0; j < e.task; j++ {
					if s.dep[e.task][j] && !(s.exitIndex(j) >= 0 && s.exitIndex(j) < s.cancelAt) {
						ready = false
					}
				}
				vAssert("nothing-new-becomes-ready-after-cancel", ready)
			}
		}
	}
	neverStarted := false
	for i := 0; i < s.n; i++ {
		if !s.entered(i) {
			neverStarted = true
		}
	}
	if neverStarted {
		vAssert("unfinished-graph-reports-error", err != nil)
	}
	// full report: whatever the schedule, a task that never started is accounted
	// for by exactly one ErrorTaskSkipped entry (no task fails or skips here)
	never, gotSkipped := 0, 0
	for i := 0; i < s.n; i++ {
		if !s.entered(i) {
			never++
		}
	}
	for _, e := range errorsOf(err) {
		if errors.Is(e, ErrorTaskSkipped) {
			gotSkipped++
		}
	}
	vAssert("never-started-tasks-reported-skipped-under-cancellation", gotSkipped == never)
	vReach("ran")
}

//go:build verif

package getoptions

// C08: unknown options are never silently ignored.

import (
	"context"
	"strconv"
	"strings"
)

// unknownToken builds an option-looking token whose name matches no declared
// option (flag, str, cmdopt, x) exactly or as a prefix.
func unknownToken(form int) (tok string, name string) {
	switch form {
	case 0: // --x
		x := vString("x")
		vAssume(x != "")
		vAssume(!strings.Contains(x, "="))
		vAssume(!strings.HasPrefix("flag", x))
		vAssume(!strings.HasPrefix("str", x))
		vAssume(!strings.HasPrefix("cmdopt", x))
		vAssume(!strings.HasPrefix("sopt", x))
		vAssume(!strings.HasPrefix("list", x))
		vAssume(!strings.HasPrefix("k", x))
		vAssume(!strings.HasPrefix("ilist", x))
		vAssume(!strings.HasPrefix("nums", x))
		return "--" + x, x
	case 1: // --x=w
		x := vString("x")
		w := vString("w")
		vAssume(x != "")
		vAssume(!strings.Contains(x, "="))
		vAssume(!strings.HasPrefix("flag", x))
		vAssume(!strings.HasPrefix("str", x))
		vAssume(!strings.HasPrefix("cmdopt", x))
		vAssume(!strings.HasPrefix("sopt", x))
		vAssume(!strings.HasPrefix("list", x))
		vAssume(!strings.HasPrefix("k", x))
		vAssume(!strings.HasPrefix("ilist", x))
		vAssume(!strings.HasPrefix("nums", x))
		return "--" + x + "=" + w, x
	case 2: // -y : one letter, the same reading in all three modes
		return "-y", "y"
	default: // the lone dash, not declared here
		return "-", "-"
	}
}

func VerifC08_Placement() {
	vNativeReset()
	mode := vInt("mode", 0, 2)
	um := vInt("um", 0, 2)
	place := vInt("place", 0, 14)
	form := vInt("form", 0, 3)
	u, name := unknownToken(form)
	v := positional("v")
	q := positional("q", "cmd", "wrap", "wrap2", "csub")

	opt := New()
	setMode(opt, mode)
	setUnknown(opt, um)
	flag := opt.Bool("flag", false, opt.Alias("f"))
	kflag := opt.Bool("k", false)
	str := opt.String("str", "d")
	sopt := opt.StringOptional("sopt", "dso")
	list := opt.StringSlice("list", 1, 3)
	ilist := opt.IntSlice("ilist", 1, 3)
	flist := opt.Float64Slice("nums", 1, 3)
	ran := ""
	opt.SetCommandFn(func(c context.Context, o *GetOpt, a []string) error { ran += "root;"; return nil })
	cmd := opt.NewCommand("cmd", "")
	cmdopt := cmd.Bool("cmdopt", false)
	cmd.SetCommandFn(func(c context.Context, o *GetOpt, a []string) error { ran += "cmd;"; return nil })
	csub := cmd.NewCommand("csub", "")
	csub.SetCommandFn(func(c context.Context, o *GetOpt, a []string) error { ran += "csub;"; return nil })
	wrap := opt.NewCommand("wrap", "")
	wrap.UnsetOptions().SetUnknownMode(Pass)
	wrap.SetCommandFn(func(c context.Context, o *GetOpt, a []string) error { ran += "wrap;"; return nil })
	wrap2 := opt.NewCommand("wrap2", "") // a wrapper that keeps the unknown mode it inherited
	wrap2.UnsetOptions()
	wrap2.SetCommandFn(func(c context.Context, o *GetOpt, a []string) error { ran += "wrap2;"; return nil })

	var args, want []string
	effUm := um
	switch place {
	case 0:
		args, want = []string{u}, []string{u}
	case 1:
		args, want = []string{"--flag", u, "--str", v}, []string{u}
	case 2:
		args, want = []string{u, "cmd", "--cmdopt", q}, []string{u, q}
	case 3:
		args, want = []string{"cmd", "--flag", u, q}, []string{u, q}
	case 4:
		// inside a wrapper (UnsetOptions + Pass) everything is passed on, also
		// what would be a known option of the parent
		args, want = []string{"wrap", u, "--flag", q}, []string{u, "--flag", q}
		effUm = 2
	case 5:
		// an option only the command declares, given before the command token, is unknown where it stands
		vAssume(form == 0)
		u, name = "--cmdopt", "cmdopt"
		args, want = []string{u, "cmd", q}, []string{u, q}
	case 6:
		// directly behind an optional-value option the unknown option is not taken as its value
		args, want = []string{"--sopt", u, q}, []string{u, q}
	case 7:
		// nor as a further value of a multi-value option
		args, want = []string{"--list", v, u}, []string{u}
	case 8:
		// Bundling: an unknown letter in front of known ones does not hide them
		vAssume(mode == 1 && form == 2)
		u, name = "-yfk", "y"
		args, want = []string{u}, []string{u}
	case 9:
		// Bundling: two different unknown letters in one token are both reported
		vAssume(mode == 1 && form == 2)
		u, name = "-yfz", "y"
		args, want = []string{u}, []string{u}
	case 14:
		// the same unknown token twice in a row: both stay
		args, want = []string{u, u, q}, []string{u, u, q}
	case 13:
		// given at a command, in front of a sub command token: travels on with it
		args, want = []string{"cmd", u, "--cmdopt", "csub", q}, []string{u, q}
	case 10:
		// a wrapper without a mode of its own: the inherited mode applies inside it
		args, want = []string{"wrap2", u, q}, []string{u, q}
	case 11:
		// a number-looking unknown option is not a further value of an int list
		vAssume(form == 2)
		n := vInt("n", 1, 1000000)
		u, name = "-"+strconv.Itoa(n), strconv.Itoa(n)
		if mode != 0 {
			name = "" // Bundling / SingleDash read the first digit as the option
		}
		args, want = []string{"--ilist", "80", u, q}, []string{u, q}
	case 12:
		// nor of a float list
		vAssume(form == 2)
		u, name = "-2.5", "2"
		args, want = []string{"--nums", "1.5", u, q}, []string{u, q}
	}
	vPhase("run")
	remaining, err := opt.Parse(args)
	warned := vWritten("Writer")
	vObserve("err", err)
	vObserve("remaining", remaining)
	vObserve("warned", warned)
	switch effUm {
	case 0:
		vAssert("fail/error", err != nil)
		if err != nil {
			vAssert("fail/names-option", strings.Contains(err.Error(), name))
		}
		vAssert("fail/remaining-nil", remaining == nil)
		vReach("fail")
	case 1:
		vAssert("warn/no-error", err == nil)
		vAssert("warn/warning-names-option", strings.Contains(warned, name))
		vAssert("warn/in-remaining", eqStrs(remaining, want))
		vReach("warn")
	case 2:
		vAssert("pass/no-error", err == nil)
		vAssert("pass/in-remaining", eqStrs(remaining, want))
		vAssert("pass/no-warning", warned == "")
		vReach("pass")
	}
	if err == nil {
		// known options around it are still honoured
		switch place {
		case 1:
			vAssert("around/flag", *flag)
			vAssert("around/str", *str == v)
		case 2:
			vAssert("around/cmdopt", *cmdopt)
		case 13:
			vAssert("around/cmdopt", *cmdopt)
		case 3:
			vAssert("around/flag", *flag)
		case 4:
			vAssert("around/wrapper-does-not-set-parent-flag", !*flag)
		case 5:
			vAssert("around/command-option-not-set", !*cmdopt)
		case 6:
			vAssert("around/optional-keeps-default", *sopt == "dso" && opt.Called("sopt"))
		case 7:
			vAssert("around/list", eqStrs(*list, []string{v}))
		case 11:
			vAssert("around/int-list", eqInts(*ilist, []int{80}))
		case 12:
			vAssert("around/float-list", len(*flist) == 1 && (*flist)[0] == 1.5)
		case 8:
			vAssert("around/bundled-known-letters", *flag && *kflag)
		case 9:
			vAssert("around/bundled-known-letter", *flag)
			if effUm == 1 {
				vAssert("warn/second-unknown-letter-named", strings.Contains(warned, "'z'"))
			}
		}
	}
}

//go:build verif

package getoptions

// C01: scalar option values reach the program exactly as written.

import "strings"

// `--name=v` for every scalar kind, any non-empty v, any mode.
func VerifC01_EqForm() {
	kind := vInt("kind", 0, 5)
	mode := vInt("mode", 0, 2)
	v := vString("v")
	vAssume(v != "")
	opt := New()
	setMode(opt, mode)
	s := defineScalar(opt, kind, "name")
	other := opt.String("other", "dflt")
	flag := opt.Bool("flag", false)
	opt.NewCommand("cmd", "")
	vPhase("run")
	remaining, err := opt.Parse([]string{"--name=" + v})
	vObserve("err", err)
	vObserve("remaining", remaining)
	s.observe("value")
	if validFor(kind, v) {
		vAssert("valid/no-error", err == nil)
		s.assertHolds("valid", opt, "name", v)
		vAssert("valid/called", opt.Called("name"))
		vAssert("valid/remaining-empty", len(remaining) == 0)
		vReach("stored")
	} else {
		vAssert("invalid/error", err != nil)
		vAssert("invalid/remaining-nil", remaining == nil)
		vReach("rejected")
	}
	vAssert("sibling-string-untouched", *other == "dflt")
	vAssert("sibling-flag-untouched", !*flag)
	vAssert("sibling-not-called", !opt.Called("other"))
}

// `--name v` (separate token), v not starting with '-'.
func VerifC01_SepForm() {
	kind := vInt("kind", 0, 5)
	mode := vInt("mode", 0, 2)
	v := vString("v")
	vAssume(v != "")
	vAssume(!strings.HasPrefix(v, "-"))
	opt := New()
	setMode(opt, mode)
	s := defineScalar(opt, kind, "name")
	other := opt.String("other", "dflt")
	opt.NewCommand("cmd", "")
	vPhase("run")
	remaining, err := opt.Parse([]string{"--name", v})
	vObserve("err", err)
	vObserve("remaining", remaining)
	s.observe("value")
	if validFor(kind, v) {
		vAssert("valid/no-error", err == nil)
		s.assertHolds("valid", opt, "name", v)
		vAssert("valid/called", opt.Called("name"))
		vAssert("valid/remaining-empty", len(remaining) == 0)
		vReach("stored")
	} else if isOptionalKind(kind) {
		// an optional-value option does not take what is not a value for it?  The
		// statement only says: never a default, truncated or partially converted
		// value without an error. Either an error, or the option keeps its
		// default, is called, and v is left in remaining.
		if err == nil {
			s.assertDefault("optional-invalid/keeps-default")
			vAssert("optional-invalid/called", opt.Called("name"))
		}
		vAssert("optional-invalid/error", err != nil)
		vReach("optional-rejected")
	} else {
		vAssert("invalid/error", err != nil)
		vAssert("invalid/remaining-nil", remaining == nil)
		vReach("rejected")
	}
	vAssert("sibling-string-untouched", *other == "dflt")
}

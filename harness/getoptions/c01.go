//go:build verif

package getoptions

// C01: scalar option values reach the program exactly as written.

import "strings"

// `--name=v` for every scalar kind, any non-empty v, any mode.
func VerifC01_EqForm() {
	kind := vInt("kind", 0, 5)
	mode := vInt("mode", 0, 2)
	v := vString("v")
	vAssume(v != "")
	opt := New()
	setMode(opt, mode)
	if vThorough() {
		scalarVarForm = vBool("varform")
	}
	s := defineScalar(opt, kind, "name")
	scalarVarForm = false
	other := opt.String("other", "dflt")
	flag := opt.Bool("flag", false)
	opt.NewCommand("cmd", "")
	vPhase("run")
	// surrounding tokens: a positional before, a sibling option or a positional after
	args := []string{"--name=" + v}
	var around []string
	{
		switch vInt("around", 0, 3) {
		case 1:
			p := positional("before", "cmd")
			args, around = []string{p, "--name=" + v}, []string{p}
		case 2:
			args = []string{"--name=" + v, "--flag"}
		case 3:
			p := positional("before", "cmd")
			q := positional("after", "cmd")
			args, around = []string{p, "--name=" + v, q}, []string{p, q}
		}
	}
	remaining, err := opt.Parse(args)
	vObserve("err", err)
	vObserve("remaining", remaining)
	s.observe("value")
	if validFor(kind, v) {
		vAssert("valid/no-error", err == nil)
		s.assertHolds("valid", opt, "name", v)
		vAssert("valid/called", opt.Called("name"))
		vAssert("valid/remaining-empty", eqStrs(remaining, around))
		vReach("stored")
	} else {
		vAssert("invalid/error", err != nil)
		vAssert("invalid/remaining-nil", remaining == nil)
		vReach("rejected")
	}
	vAssert("sibling-string-untouched", *other == "dflt")
	if len(args) == 2 && args[1] == "--flag" {
		vAssert("sibling-flag-set", *flag || err != nil)
	} else {
		vAssert("sibling-flag-untouched", !*flag)
	}
	vAssert("sibling-not-called", !opt.Called("other"))
}

// `--name v` (separate token), v not starting with '-'.
func VerifC01_SepForm() {
	kind := vInt("kind", 0, 5)
	mode := vInt("mode", 0, 2)
	v := vString("v")
	vAssume(v != "")
	vAssume(!strings.HasPrefix(v, "-"))
	opt := New()
	setMode(opt, mode)
	if vThorough() {
		scalarVarForm = vBool("varform")
	}
	s := defineScalar(opt, kind, "name")
	scalarVarForm = false
	other := opt.String("other", "dflt")
	opt.NewCommand("cmd", "")
	vPhase("run")
	remaining, err := opt.Parse([]string{"--name", v})
	vObserve("err", err)
	vObserve("remaining", remaining)
	s.observe("value")
	if validFor(kind, v) {
		vAssert("valid/no-error", err == nil)
		s.assertHolds("valid", opt, "name", v)
		vAssert("valid/called", opt.Called("name"))
		vAssert("valid/remaining-empty", len(remaining) == 0)
		vReach("stored")
	} else if isOptionalKind(kind) {
		// an optional-value option does not take what is not a value for it?  The
		// statement only says: never a default, truncated or partially converted
		// value without an error. Either an error, or the option keeps its
		// default, is called, and v is left in remaining.
		if err == nil {
			s.assertDefault("optional-invalid/keeps-default")
			vAssert("optional-invalid/called", opt.Called("name"))
		}
		vAssert("optional-invalid/error", err != nil)
		vReach("optional-rejected")
	} else {
		vAssert("invalid/error", err != nil)
		vAssert("invalid/remaining-nil", remaining == nil)
		vReach("rejected")
	}
	vAssert("sibling-string-untouched", *other == "dflt")
}

// bool passed n times, increment passed n times, bare optional-value options.
func VerifC01_Flags() {
	mode := vInt("mode", 0, 2)
	what := vInt("what", 0, 3)
	n := vInt("n", 1, 3)
	short := vBool("short")
	defB := vBool("defB")
	defI := vInt("defI", -9223372036854775808, 9223372036854775807)
	okind := 1 + 2*vInt("okind", 0, 2) // one of the three optional kinds
	opt := New()
	setMode(opt, mode)
	b := opt.Bool("b", defB)
	inc := opt.Increment("i", defI)
	scalarVarForm = vBool("ovar") // the optional-value option declared through its *Var form
	o := defineScalar(opt, okind, "o")
	scalarVarForm = false
	flag := opt.Bool("flag", false)
	opt.NewCommand("cmd", "")
	vPhase("run")
	spell := func(name string) string {
		if short {
			return "-" + name
		}
		return "--" + name
	}
	var args []string
	switch what {
	case 0:
		for k := 0; k < n; k++ {
			args = append(args, spell("b"))
		}
	case 1:
		for k := 0; k < n; k++ {
			args = append(args, spell("i"))
		}
	case 2:
		args = []string{spell("o")}
	case 3:
		args = []string{spell("o"), "--flag"}
	}
	remaining, err := opt.Parse(args)
	vObserve("err", err)
	vObserve("remaining", remaining)
	vObserve("b", *b)
	vObserve("i", *inc)
	vAssert("no-error", err == nil)
	vAssert("remaining-empty", len(remaining) == 0)
	switch what {
	case 0:
		vAssert("bool/negated-default", *b == !defB)
		vAssert("bool/called", opt.Called("b"))
		vAssert("bool/value", opt.Value("b").(bool) == !defB)
		vAssert("increment/untouched", *inc == defI)
		vReach("bool")
	case 1:
		vAssert("increment/default-plus-n", *inc == defI+n)
		vAssert("increment/called", opt.Called("i"))
		vAssert("bool/untouched", *b == defB)
		vReach("increment")
	case 2, 3:
		o.assertDefault("optional/keeps-default")
		vAssert("optional/called", opt.Called("o"))
		vAssert("optional/flag-after", *flag == (what == 3))
		vReach("optional-bare")
	}
}

//go:build verif

package getoptions

// C18: generated help lists every option, alias, argument and command exactly once.

import (
	"context"
	"strings"
)

const c18env = "VERIF_C18_ENV"

// c18define declares the option under test ("target") of one of the 12 kinds,
// through the plain form or through the *Var form with a variable that holds
// something else than the declared default when the option is declared.
func c18define(o *GetOpt, kind int, fns []ModifyFn, defS string, varForm bool) (valueName string) {
	if varForm {
		b, i, f, str := true, 99, 9.5, "stale"
		sl, il, fl, m := []string{"stale"}, []int{99}, []float64{9.5}, map[string]string{"stale": "x"}
		switch kind {
		case 0:
			o.BoolVar(&b, "target", false, fns...)
			return ""
		case 1:
			o.IncrementVar(&i, "target", 0, fns...)
			return ""
		case 2:
			o.StringVar(&str, "target", defS, fns...)
			return "string"
		case 3:
			o.IntVar(&i, "target", 7, fns...)
			return "int"
		case 4:
			o.Float64Var(&f, "target", 2.5, fns...)
			return "float64"
		case 5:
			o.StringVarOptional(&str, "target", defS, fns...)
			return "string"
		case 6:
			o.IntVarOptional(&i, "target", 7, fns...)
			return "int"
		case 7:
			o.Float64VarOptional(&f, "target", 2.5, fns...)
			return "float64"
		case 8:
			o.StringSliceVar(&sl, "target", 1, 2, fns...)
			return "string"
		case 9:
			o.IntSliceVar(&il, "target", 1, 2, fns...)
			return "int"
		case 10:
			o.Float64SliceVar(&fl, "target", 1, 2, fns...)
			return "float64"
		default:
			o.StringMapVar(&m, "target", 1, 2, fns...)
			return "key=value"
		}
	}
	switch kind {
	case 0:
		o.Bool("target", false, fns...)
		return ""
	case 1:
		o.Increment("target", 0, fns...)
		return ""
	case 2:
		o.String("target", defS, fns...)
		return "string"
	case 3:
		o.Int("target", 7, fns...)
		return "int"
	case 4:
		o.Float64("target", 2.5, fns...)
		return "float64"
	case 5:
		o.StringOptional("target", defS, fns...)
		return "string"
	case 6:
		o.IntOptional("target", 7, fns...)
		return "int"
	case 7:
		o.Float64Optional("target", 2.5, fns...)
		return "float64"
	case 8:
		o.StringSlice("target", 1, 2, fns...)
		return "string"
	case 9:
		o.IntSlice("target", 1, 2, fns...)
		return "int"
	case 10:
		o.Float64Slice("target", 1, 2, fns...)
		return "float64"
	default:
		o.StringMap("target", 1, 2, fns...)
		return "key=value"
	}
}

func VerifC18_Help() {
	vNativeReset()
	vBound("split", 200) // the help text is split into its lines
	kind := vInt("kind", 0, 11)
	required := vInt("required", 0, 2) // 0 no, 1 yes, 2 yes with custom message
	envBound := vBool("env")
	nAlias := vInt("aliases", 0, 3)
	descKind := vInt("desc", 0, 2)  // 0 absent, 1 symbolic single line, 2 concrete multi-line
	atCommand := vBool("atcommand") // help of a command that inherits the option
	nCmds := vInt("commands", 0, 2)
	helpCmd := vBool("helpcmd")
	varForm := false // declared through the *Var form, the variable holding another value
	if nAlias == 0 && descKind == 0 && nCmds == 0 && !helpCmd {
		varForm = vBool("varform")
	}
	long := vBool("longnames") // a long program name and long aliases: the synopsis has to wrap
	desc := vString("description")
	defS := vString("default")
	for _, x := range []string{desc, defS} {
		vAssume(!strings.Contains(x, "\n"))
		vAssume(!strings.Contains(x, "["))
		vAssume(!strings.Contains(x, "-"))
	}
	vAssume(desc != "")

	opt := New()
	if long {
		opt.Self("a-program-with-a-rather-long-name-for-a-command-line-tool", "")
	}
	var fns []ModifyFn
	switch required {
	case 1:
		fns = append(fns, opt.Required())
	case 2:
		fns = append(fns, opt.Required("target must be given"))
	}
	if envBound {
		fns = append(fns, opt.GetEnv(c18env))
	}
	names := "--target"
	switch nAlias {
	case 1:
		fns = append(fns, opt.Alias("t"))
		names = "--target|-t"
	case 2:
		fns = append(fns, opt.Alias("t", "tgt"))
		names = "--target|-t|--tgt"
	case 3:
		// aliases given through two separate modifiers
		fns = append(fns, opt.Alias("t"), opt.Alias("tgt", "T"))
		names = "--target|-t|--tgt|-T"
	}
	if long {
		vAssume(nAlias == 2)
		fns = fns[:len(fns)-1]
		fns = append(fns, opt.Alias("t", "a-very-long-alias-name-for-the-target-option-that-fills-the-line"))
		names = "--target|-t|--a-very-long-alias-name-for-the-target-option-that-fills-the-line"
	}
	switch descKind {
	case 1:
		fns = append(fns, opt.Description(desc))
	case 2:
		fns = append(fns, opt.Description("first line\nsecond line"))
	}
	c18define(opt, kind, fns, defS, varForm)
	opt.Bool("omega", false, opt.Description("context option"))
	opt.String("zeta", "zd")
	var level *GetOpt = opt
	cmdNames := []string{"build", "clean"}
	cmdDescs := []string{"build things", "clean things"}
	var leaf *GetOpt
	if atCommand {
		leaf = opt.NewCommand("leaf", "the leaf command")
		leaf.SetCommandFn(func(c context.Context, o *GetOpt, a []string) error { return nil })
		level = leaf
	}
	for i := 0; i < nCmds; i++ {
		c := level.NewCommand(cmdNames[i], cmdDescs[i])
		c.SetCommandFn(func(c context.Context, o *GetOpt, a []string) error { return nil })
	}
	if helpCmd {
		opt.HelpCommand("help", opt.Alias("?"))
	}
	vPhase("run")
	args := []string{}
	if atCommand {
		args = []string{"leaf"}
	}
	// required options are not supplied: Parse/Dispatch may complain, Help() must work regardless
	_, _ = opt.Parse(args)
	help := opt.Help()
	vObserve("help", help)
	lines := strings.Split(help, "\n")

	isReq := required != 0
	entry := "    " + names
	// locate section headers and entries line by line
	iReq, iOpt, iSyn, iCmd := -1, -1, -1, -1
	entries, aliasEntries := 0, 0
	entryAt := -1
	for i, l := range lines {
		switch l {
		case "REQUIRED PARAMETERS:":
			iReq = i
		case "OPTIONS:":
			iOpt = i
		case "SYNOPSIS:":
			iSyn = i
		case "COMMANDS:":
			iCmd = i
		}
		if strings.HasPrefix(l, entry+" ") || l == entry {
			entries++
			entryAt = i
		}
		if strings.HasPrefix(l, "    -t") || strings.HasPrefix(l, "    --tgt") || strings.HasPrefix(l, "    -T") || strings.HasPrefix(l, "    --a-very") {
			aliasEntries++
		}
	}
	// (1) exactly one entry in the option lists, carrying every alias; (6) no alias entries
	vAssert("entry-once", entries == 1)
	vAssert("no-alias-entry", aliasEntries == 0)
	vAssert("options-section-present", iOpt >= 0)
	vAssert("synopsis-present", iSyn >= 0)
	if entries != 1 || iOpt < 0 || iSyn < 0 {
		return
	}
	// (2) under REQUIRED PARAMETERS exactly when required
	if isReq {
		vAssert("required/header", iReq >= 0)
		vAssert("required/listed-there", iReq >= 0 && iReq < entryAt && entryAt < iOpt)
	} else {
		vAssert("optional/listed-among-options", entryAt > iOpt)
		vAssert("optional/no-required-section", iReq < 0)
	}
	// the block of the entry: its line and the continuation lines up to the blank line
	block := ""
	for i := entryAt; i < len(lines) && lines[i] != ""; i++ {
		block += lines[i] + "\n"
	}
	// (3) default of every non-required option
	if !isReq {
		switch kind {
		case 2:
			vAssert("default/shown", strings.Contains(block, "(default: \""+defS+"\""))
		case 5:
			vAssert("default/shown", strings.Contains(block, "(default: "+defS))
		case 3, 6:
			vAssert("default/shown", strings.Contains(block, "(default: 7"))
		case 0:
			vAssert("default/shown", strings.Contains(block, "(default: false"))
		case 1:
			vAssert("default/shown", strings.Contains(block, "(default: 0"))
		case 4, 7:
			vAssert("default/shown", strings.Contains(block, "(default: 2.5"))
		case 8, 9, 10:
			vAssert("default/shown", strings.Contains(block, "(default: []"))
		default:
			vAssert("default/shown", strings.Contains(block, "(default: {}"))
		}
	}
	// (4) environment variable of every bound option
	if envBound {
		vAssert("env/shown", strings.Contains(block, "env: "+c18env))
	} else {
		vAssert("env/not-shown", !strings.Contains(help, c18env) || strings.Contains(desc, c18env) || strings.Contains(defS, c18env))
	}
	if descKind == 1 {
		vAssert("description/shown", strings.Contains(block, desc))
	}
	if descKind == 2 {
		vAssert("description/both-lines", strings.Contains(block, "first line\n") && strings.Contains(block, "second line"))
	}
	// (5) synopsis mentions every option, required ones unbracketed
	syn := ""
	for i := iSyn + 1; i < len(lines) && lines[i] != ""; i++ {
		syn += lines[i] + "\n"
	}
	vObserve("synopsis", syn)
	vAssert("synopsis/mentions-option", strings.Contains(syn, names))
	vAssert("synopsis/mentions-context", strings.Contains(syn, "[--omega]") && strings.Contains(syn, "[--zeta <string>]"))
	if isReq {
		vAssert("synopsis/required-unbracketed", !strings.Contains(syn, "["+names))
	} else {
		vAssert("synopsis/optional-bracketed", strings.Contains(syn, "["+names))
	}
	// (7) every sub command except help exactly once, with its description
	for i := 0; i < nCmds; i++ {
		n := 0
		for _, l := range lines {
			if strings.HasPrefix(l, "    "+cmdNames[i]+" ") {
				n++
				vAssert("command/description", strings.Contains(l, cmdDescs[i]))
			}
		}
		vAssert("command/once", n == 1)
	}
	if nCmds > 0 {
		vAssert("command/section", iCmd >= 0)
	}
	if helpCmd {
		for _, l := range lines {
			vAssert("command/help-not-listed", !strings.HasPrefix(l, "    help "))
		}
	}
	vReach("checked")
}

// The text is the same whether reached through the help option, the help
// command or Help().
func VerifC18_SameText() {
	vNativeReset()
	atCommand := vBool("atcommand")
	via := vInt("via", 0, 2) // 0 --help, 1 -? alias, 2 help command
	desc := vString("description")
	vAssume(!strings.Contains(desc, "\n"))
	build := func() *GetOpt {
		opt := New()
		opt.String("target", "d", opt.Alias("t"), opt.Description(desc))
		opt.Bool("omega", false)
		leaf := opt.NewCommand("leaf", "the leaf command")
		leaf.Int("count", 3)
		leaf.SetCommandFn(func(c context.Context, o *GetOpt, a []string) error { return nil })
		opt.HelpCommand("help", opt.Alias("?"))
		return opt
	}
	var args, plain []string
	if atCommand {
		plain = []string{"leaf"}
	}
	switch via {
	case 0:
		args = cat(plain, []string{"--help"})
	case 1:
		args = cat(plain, []string{"-?"})
	case 2:
		if atCommand {
			args = []string{"help", "leaf"}
		} else {
			args = []string{"help"}
		}
	}
	vPhase("run")
	a := build()
	rem, err := a.Parse(args)
	vAssert("parse-ok", err == nil)
	derr := a.Dispatch(context.Background(), rem)
	vAssert("help-called", derr == ErrorHelpCalled)
	written := vWritten("Writer")
	b := build()
	_, _ = b.Parse(plain)
	direct := b.Help()
	vObserve("written", written)
	vAssert("same-text", written == direct)
	vReach("compared")
}

// A command declares an option "v" of its own; later the parent declares
// "verbose" with the alias "v", then the help command (which hands the parent's
// options down). Whatever the command's help then lists, no name appears in
// two entries and every entry's names are accepted by the parser at that level
// for the option the entry describes.
func VerifC18_LateParentAlias() {
	vNativeReset()
	vBound("split", 200)
	opt := New()
	cmd := opt.NewCommand("c", "a command")
	cmd.SetCommandFn(func(c context.Context, o *GetOpt, a []string) error { return nil })
	cmd.Bool("v", false, opt.Description("the command's own switch"))
	opt.Bool("verbose", false, opt.Alias("v"), opt.Description("the parent's option"))
	opt.HelpCommand("help", opt.Alias("?"))
	vPhase("run")
	_, err := opt.Parse([]string{"c"})
	vAssert("late-alias/no-error", err == nil)
	help := cmd.Help()
	vObserve("help", help)
	lines := strings.Split(help, "\n")
	entriesWithV := 0
	inOptions := false
	for _, l := range lines {
		if strings.HasPrefix(l, "OPTIONS:") || strings.HasPrefix(l, "REQUIRED PARAMETERS:") {
			inOptions = true
			continue
		}
		if l != "" && !strings.HasPrefix(l, " ") {
			inOptions = false
		}
		if !inOptions || !strings.HasPrefix(l, "    -") {
			continue
		}
		names := strings.Fields(l)[0]
		for _, nm := range strings.Split(names, "|") {
			if nm == "-v" {
				entriesWithV++
			}
		}
	}
	vAssert("late-alias/name-in-one-entry-only", entriesWithV <= 1)
	vReach("helped")
}

//go:build verif

package getoptions

// C12: value precedence is command line over environment variable over default.

import (
	"math"
	"strconv"
	"strings"
)

const c12env = "VERIF_C12_ENV"

func VerifC12_Precedence() {
	vNativeReset()
	vBound("digits", 15)       // numeral range boundaries are C01's subject
	kind := vInt("kind", 0, 6) // the six scalar kinds, 6 = bool
	envState := vInt("env", 0, 2)
	cli := vInt("cli", 0, 2) // 0 absent, 1 --name=v (bool: --name), 2 --name v
	e := vString("e")
	v := vString("v")
	switch envState {
	case 1:
		vSetenv(c12env, "")
	case 2:
		vAssume(e != "")
		vAssume(!strings.Contains(e, "\x00")) // cannot be put into a process environment
		vSetenv(c12env, e)
	}
	opt := New()
	var s *scalar
	var pb *bool
	defB := false
	varForm := vBool("varform") // declared through the *Var form, the variable holding another value
	if kind == 6 {
		defB = vBool("defB")
		if varForm {
			vb := !defB
			opt.BoolVar(&vb, "name", defB, opt.GetEnv(c12env))
			pb = &vb
		} else {
			pb = opt.Bool("name", defB, opt.GetEnv(c12env))
		}
	} else {
		scalarVarForm = varForm
		s = defineScalar(opt, kind, "name", opt.GetEnv(c12env))
		scalarVarForm = false
	}
	// commands whose names are possible value texts: a value is a value
	opt.NewCommand("cmd", "")
	opt.NewCommand("json", "")
	var args []string
	switch cli {
	case 1:
		if kind == 6 {
			args = []string{"--name"}
		} else {
			vAssume(v != "")
			args = []string{"--name=" + v}
		}
	case 2:
		if kind == 6 {
			vAssume(false)
		}
		vAssume(v != "")
		vAssume(!isOptionLooking(v))
		args = []string{"--name", v}
	}
	vPhase("run")
	remaining, err := opt.Parse(args)
	vObserve("err", err)
	vObserve("remaining", remaining)
	vObserve("called", opt.Called("name"))
	vObserve("calledAs", opt.CalledAs("name"))
	if kind == 6 {
		vObserve("value", *pb)
	} else {
		s.observe("value")
	}

	if cli != 0 {
		// the command line wins
		if kind == 6 {
			vAssert("cli/no-error", err == nil)
			vAssert("cli/bool-negated-default", *pb == !defB)
			vAssert("cli/called", opt.Called("name"))
			vAssert("cli/called-as", opt.CalledAs("name") == "name")
		} else if validFor(kind, v) {
			vAssert("cli/no-error", err == nil)
			s.assertHolds("cli", opt, "name", v)
			vAssert("cli/called", opt.Called("name"))
			vAssert("cli/called-as", opt.CalledAs("name") == "name")
		} else {
			vAssert("cli/invalid-error", err != nil)
		}
		vReach("cli")
		return
	}
	vAssert("no-error", err == nil)
	if envState != 2 {
		// unset or empty: nothing changes
		if kind == 6 {
			vAssert("noenv/default", *pb == defB)
		} else {
			s.assertDefault("noenv/default")
		}
		vAssert("noenv/not-called", !opt.Called("name"))
		vAssert("noenv/called-as-empty", opt.CalledAs("name") == "")
		vReach("noenv")
		return
	}
	// environment text present
	valid := false
	if kind == 6 {
		l := strings.ToLower(e)
		if l == "true" {
			valid = true
			vAssert("env/bool-true", *pb)
		} else if l == "false" {
			valid = true
			vAssert("env/bool-false", !*pb)
		}
	} else if validFor(kind, e) {
		valid = true
		s.assertHolds("env", opt, "name", e)
	}
	if valid {
		vAssert("env/called", opt.Called("name"))
		vAssert("env/called-as-variable", opt.CalledAs("name") == c12env)
		vReach("env-valid")
	} else {
		// text not valid for the type: the declared default (Called is left open by the statement)
		if kind == 6 {
			vAssert("envinvalid/default", *pb == defB)
			vAssert("envinvalid/not-called", !opt.Called("name"))
		} else {
			s.assertDefault("envinvalid/default")
		}
		vReach("env-invalid")
	}
}

var _ = math.Abs
var _ = strconv.Itoa

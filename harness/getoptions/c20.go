//go:build verif

package getoptions

// C20: same definition and input always give the same result and the same text.
// The engine explores the iteration order of every map that is ranged over while
// the scenario runs (vMapOrder("explore")); natively the scenario is repeated.

import (
	"context"
	"fmt"
	"strings"
)

func c20scenario(k int, explore bool) string {
	vNativeReset()
	vClearWritten("Writer")
	vClearWritten("completion")
	exited := 0
	exitFn = func(code int) { exited++ }
	completionWriter = vWriter("completion")
	opt := New()
	var args []string
	switch k {
	case 0: // two required options missing at the root
		opt.String("alpha", "", opt.Required())
		opt.String("beta", "", opt.Required("beta is needed"))
		opt.Bool("gamma", false)
	case 1: // two required options missing on a command (reported by Dispatch)
		opt.Bool("gamma", false)
		cmd := opt.NewCommand("cmd", "")
		cmd.String("alpha", "", cmd.Required())
		cmd.String("beta", "", cmd.Required())
		cmd.SetCommandFn(func(c context.Context, o *GetOpt, a []string) error { return nil })
		args = []string{"cmd"}
	case 2: // two unknown options, Fail mode: the first one is named
		opt.Bool("gamma", false)
		opt.Bool("delta", false)
		args = []string{"--zeta", "--eta", "--gamma"}
	case 3: // two unknown options, Warn mode: warnings in order
		opt.SetUnknownMode(Warn)
		opt.Bool("gamma", false)
		opt.Bool("delta", false)
		args = []string{"--zeta", "--delta", "--eta"}
	case 4: // ambiguous prefix with three candidates
		opt.Bool("version", false)
		opt.Bool("verbose", false)
		opt.String("verify", "")
		args = []string{"--ver"}
	case 5: // help text with several options and commands
		opt.Bool("version", false, opt.Alias("V"))
		opt.String("verify", "x", opt.Required())
		opt.Int("count", 3)
		opt.NewCommand("build", "build it")
		opt.NewCommand("clean", "clean it")
		opt.HelpCommand("help", opt.Alias("?"))
		args = []string{"--verify", "y"}
	case 6: // completion of options
		opt.Bool("version", false)
		opt.Bool("verbose", false)
		opt.String("verify", "")
		opt.NewCommand("build", "")
		opt.NewCommand("bundle", "")
		vSetenv("COMP_LINE", "prog --ver")
	case 7: // completion of commands
		opt.Bool("version", false)
		opt.NewCommand("build", "")
		opt.NewCommand("bundle", "")
		opt.NewCommand("bake", "")
		vSetenv("COMP_LINE", "prog b")
	case 8: // completion of a fully typed command name that prefixes its siblings
		opt.NewCommand("log", "")
		opt.NewCommand("logs", "")
		opt.NewCommand("login", "")
		opt.NewCommand("show", "")
		vSetenv("COMP_LINE", "prog log")
	case 9: // ambiguous prefix with four candidates (names and aliases)
		opt.Bool("version", false, opt.Alias("vers"))
		opt.Bool("verbose", false)
		opt.String("verify", "")
		args = []string{"--ver"}
	case 10: // the help command asked for a topic that abbreviates two commands
		opt.NewCommand("commit", "")
		opt.NewCommand("config", "")
		opt.NewCommand("clean", "")
		opt.HelpCommand("help")
		args = []string{"help", "co"}
	case 11: // an abbreviation of two names of one option and of another option
		opt.Bool("verbose", false, opt.Alias("verb"))
		opt.Int("level", 0, opt.Alias("lev"))
		opt.Bool("version", false)
		args = []string{"--le=x"}
	case 12: // missing required options whose names differ only in letter case
		opt.String("port", "", opt.Required("port is needed"), opt.Alias("p"))
		opt.String("Port", "", opt.Required("Port is needed"), opt.Alias("P"))
		opt.Bool("gamma", false)
	case 14: // help text with commands whose names differ only in letter case
		opt.NewCommand("status", "lower")
		opt.NewCommand("Status", "upper")
		opt.NewCommand("STATUS", "all caps")
		opt.HelpCommand("help")
		args = []string{"help"}
	case 13: // the same on a command, plus names that differ in a trailing character
		cmd := opt.NewCommand("cmd", "")
		cmd.String("x", "", cmd.Required())
		cmd.String("X", "", cmd.Required())
		cmd.String("x-", "", cmd.Required())
		cmd.SetCommandFn(func(c context.Context, o *GetOpt, a []string) error { return nil })
		args = []string{"cmd"}
	}
	if explore {
		vMapOrder("explore")
	}
	remaining, err := opt.Parse(args)
	out := fmt.Sprintf("remaining=%v err=%v", remaining, err)
	if err == nil && exited == 0 {
		derr := opt.Dispatch(context.Background(), remaining)
		out += fmt.Sprintf(" dispatch=%v", derr)
		if k == 5 {
			out += " help=" + opt.Help()
		}
	}
	vMapOrder("insertion")
	out += " warnings=" + vWritten("Writer") + " completion=" + vWritten("completion") + fmt.Sprintf(" exited=%d", exited)
	return out
}

func VerifC20_MapOrder() {
	k := vInt("scenario", 0, 14)
	vPhase("run")
	first := c20scenario(k, false)
	vObserve("first", first)
	same := true
	for i := 0; i < vRepeat() && same; i++ {
		same = c20scenario(k, true) == first
	}
	vAssert("same-output", same)
	if k == 2 {
		vAssert("first-unknown-named", strings.Contains(first, "zeta"))
	}
	vReach("compared")
}

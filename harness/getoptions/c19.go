//go:build verif

package getoptions

// C19: no input makes the library panic or hang. The engine checks every
// instruction that can panic and every loop against an unwind limit; a panic or
// an overflow on a feasible path is replayed natively (under a time limit).

import (
	"context"
	"math"
	"strconv"
	"strings"
)

// allKinds declares options of all kinds with one-letter names; family 1 has
// the flag and scalar kinds, family 2 the optional-value and multi-value kinds,
// family 0 all twelve.
func allKinds(mode, um int, ro bool, family int) *GetOpt {
	opt := New()
	setMode(opt, mode)
	setUnknown(opt, um)
	if ro {
		opt.SetRequireOrder()
	}
	if family == 0 {
		// suggested values that themselves end in '='
		opt.String("z", "", opt.SuggestedValues("name=", "kind=", "x"))
	}
	if family != 2 {
		opt.Bool("b", false)
		opt.Increment("i", 0)
		opt.String("s", "")
		opt.Int("n", 0)
		opt.Float64("f", 0)
	}
	if family != 1 {
		opt.StringOptional("S", "")
		opt.IntOptional("N", 0)
		opt.Float64Optional("F", 0)
		opt.StringSlice("l", 1, 2)
		opt.IntSlice("L", 1, 2)
		opt.Float64Slice("R", 1, 2)
		opt.StringMap("m", 1, 2)
	}
	opt.SetCommandFn(func(c context.Context, o *GetOpt, a []string) error { return nil })
	cmd := opt.NewCommand("c", "command")
	cmd.SetCommandFn(func(c context.Context, o *GetOpt, a []string) error { return nil })
	opt.HelpCommand("help", opt.Alias("?"))
	return opt
}

// after: whatever Parse returned, Dispatch and Help must return as well.
func c19after(opt *GetOpt, remaining []string, err error) {
	if err != nil {
		vAssert("failed-parse-nil-remaining", remaining == nil)
		vReach("failed")
		return
	}
	_ = opt.Dispatch(context.Background(), remaining)
	_ = opt.Help()
	vReach("parsed")
}

// One raw token followed by a second token of a symbolically chosen simple
// kind, over all 12 option kinds.
func VerifC19_RawAllKinds() {
	vNativeReset()
	family := vInt("family", 1, 2)
	// quick tier: Normal mode, pass-through (parses most); the other modes run
	// over the smaller program of RawTwo; all 18 combinations in the thorough tier
	mode, um, ro := 0, 2, false
	if vThorough() {
		mode = vInt("mode", 0, 2)
		um = vInt("um", 0, 2)
		ro = vBool("ro")
	}
	vBound("runes", 2)
	vBound("digits", 12) // numeral boundaries are covered by C01 and by the range harness below
	t0 := vString("t0")
	vAssume(!strings.Contains(t0, "..")) // int ranges: RangeBoundary below and C02
	args := []string{t0}
	nSecond := 1
	if vThorough() {
		nSecond = 4
	}
	second := vInt("second", 0, nSecond)
	if second == 1 && !(mode == 0 || (um == 2 && !ro)) {
		// thorough tier: a raw second token in Normal mode (all unknown modes, both
		// orders) and in pass-through mode of the other two; elsewhere the fixed kinds
		vAssume(false)
	}
	switch second {
	case 0:
	case 1:
		t1 := vString("t1value")
		vAssume(!strings.Contains(t1, ".."))
		args = append(args, t1)
	case 2:
		args = append(args, "--")
	case 3:
		args = append(args, "-")
	case 4:
		args = append(args, "c")
	}
	opt := allKinds(mode, um, ro, family)
	vPhase("run")
	remaining, err := opt.Parse(args)
	vObserve("err", err)
	vObserve("remaining", remaining)
	c19after(opt, remaining, err)
}

// Two raw tokens over the program without multi-value options.
func VerifC19_RawTwo() {
	vNativeReset()
	mode := vInt("mode", 0, 2)
	um, ro := 2, false // quick tier; C03's raw harness runs the same program in all 18 combinations
	if vThorough() {
		um = vInt("um", 0, 2)
		ro = vBool("ro")
	}
	vBound("runes", 2)
	args := []string{vString("t0"), vString("t1")}
	opt, _, _ := rawDefinition(mode, um, ro)
	opt.HelpCommand("help")
	vPhase("run")
	remaining, err := opt.Parse(args)
	vObserve("err", err)
	vObserve("remaining", remaining)
	c19after(opt, remaining, err)
}

// Int ranges whose end points reach the largest and smallest int.
func VerifC19_RangeBoundary() {
	vNativeReset()
	top := vBool("top")
	d := vInt("d", 1, 3)
	off := vInt("off", 0, 3)
	var a int
	if top {
		a = math.MaxInt64 - d - off // a+d <= MaxInt64
	} else {
		a = math.MinInt64 + off
	}
	b := a + d
	opt := New()
	pi := opt.IntSlice("L", 1, 1)
	vPhase("run")
	remaining, err := opt.Parse([]string{"--L=" + strconv.Itoa(a) + ".." + strconv.Itoa(b)})
	vObserve("err", err)
	vObserve("values", *pi)
	vAssert("no-error", err == nil)
	vAssert("remaining-empty", len(remaining) == 0)
	vAssert("length", len(*pi) == d+1)
	vReach("expanded")
}

// Completion: COMP_LINE with two raw words, both targets.
func VerifC19_Completion() {
	vNativeReset()
	zsh := vBool("zsh")
	w2 := vString("w2")
	var w1 string
	if vThorough() {
		w1 = vString("w1")
	} else {
		w1 = []string{"", "c", "--s=x", "help", "--l"}[vInt("w1shape", 0, 4)]
	}
	// words as the shell hands them over: free of white space
	vAssume(vMatches(w1, `[^\t\n\f\r ]*`))
	vAssume(vMatches(w2, `[^\t\n\f\r ]*`))
	line := "prog " + w1 + " " + w2
	vAssume(!strings.Contains(line, "\x00"))
	vAssume(!strings.Contains(line, ".."))
	vSetenv("COMP_LINE", line)
	if zsh {
		vSetenv("ZSHELL", "true")
	}
	exited := 0
	exitFn = func(code int) { exited++ }
	completionWriter = vWriter("completion")
	vBound("runes", 2)
	vBound("digits", 12)
	opt := allKinds(0, 0, false, 0)
	vPhase("run")
	remaining, err := opt.Parse([]string{})
	vObserve("err", err)
	vObserve("out", vWritten("completion"))
	vAssert("completion/exit-path", exited == 1)
	vAssert("completion/returns-nothing", remaining == nil && err == nil)
	vReach("completed")
}

// Option names, aliases and argument names made of wide (multibyte)
// characters: help generation must not depend on byte lengths in a way that panics.
func VerifC19_HelpWideNames() {
	vNativeReset()
	shape := vInt("shape", 0, 3)
	kind := vInt("kind", 0, 2)
	withShort := vBool("withshort") // a second, short option that widens the column
	opt := New()
	name := []string{"ヘルプ設定", "🚀🚀", "éèêëàâ", "ünïcödé-näme"}[shape]
	switch kind {
	case 0:
		opt.Bool(name, false, opt.Description("wide"))
	case 1:
		opt.String(name, "", opt.Alias("出"), opt.ArgName("値"), opt.Required())
	case 2:
		opt.StringSlice(name, 1, 2, opt.Description("wide\nsecond line"))
	}
	if withShort {
		opt.Bool("o", false)
	}
	opt.NewCommand("コマンド", "wide command")
	opt.HelpCommand("help", opt.Alias("?"))
	vPhase("run")
	h := opt.Help()
	vObserve("help", h)
	vAssert("help/names-the-option", strings.Contains(h, name))
	_, err := opt.Parse([]string{"--" + name})
	_ = err
	vReach("helped")
}

// Tokens with bytes that are not valid UTF-8 (concrete patterns; the symbolic
// harnesses stay inside valid UTF-8) in all modes: Parse, Dispatch, Help return.
func VerifC19_RawBytes() {
	vNativeReset()
	mode := vInt("mode", 0, 2)
	um := vInt("um", 0, 2)
	tok := []string{"-\xff", "-\x80a", "-\xe6\x97", "-\xff=value", "--\xff", "-s\xff", "\xff", "-\xed\xa0\x80", "-b\xc3", "--s=\xff\xfe", "-\xf8\x88\x80\x80\x80x"}[vInt("tok", 0, 10)]
	second := vBool("second")
	opt, _, _ := rawDefinition(mode, um, false)
	opt.HelpCommand("help")
	args := []string{tok}
	if second {
		args = append(args, "v")
	}
	vPhase("run")
	remaining, err := opt.Parse(args)
	vObserve("err", err != nil)
	c19after(opt, remaining, err)
}

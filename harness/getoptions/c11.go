//go:build verif

package getoptions

// C11: required options are enforced before any command runs; help bypasses them.

import (
	"context"
	"errors"
	"strings"
)

const c11env = "VERIF_C11_ENV"

func VerifC11_Required() {
	vNativeReset()
	mode := vInt("mode", 0, 2)
	level := vInt("level", 0, 1)    // 0: root is selected, 1: command c is selected
	supply := vInt("supply", 0, 4)  // 0 none, 1 by name, 2 by alias, 3 by unique abbreviation, 4 by environment
	custom := vBool("custom")       // custom message declared
	percent := vBool("percent")     // ... one that contains a per cent sign
	inherited := vBool("inherited") // level 1: the required option is the root's (inherited) or the command's own
	help := vInt("help", 0, 7)      // 0 no, 1 --help, 2 -? alias, 3 --hel abbreviation, 4 help command, 5 help <topic>, 6 help <unknown topic>
	val := positional("val", "c", "help", "wrap")
	msg := vString("msg")
	vAssume(msg != "")
	if percent {
		vAssume(custom)
		msg = "at least 80% statement coverage, 100%!"
	}

	if supply == 4 {
		vAssume(val != "")
		vAssume(!strings.Contains(val, "\x00"))
		vSetenv(c11env, val)
	}
	ran := ""
	opt := New()
	setMode(opt, mode)
	opt.SetCommandFn(func(ctx context.Context, o *GetOpt, a []string) error { ran += "root;"; return nil })
	req := func(o *GetOpt) ModifyFn {
		if custom {
			return o.Required(msg)
		}
		return o.Required()
	}
	ownAtRoot := level == 0 || inherited
	var target *string
	if ownAtRoot {
		target = opt.String("required", "", req(opt), opt.Alias("rq"), opt.GetEnv(c11env))
	}
	opt.Bool("zother", false)
	cmd := opt.NewCommand("c", "a command")
	cmd.SetCommandFn(func(ctx context.Context, o *GetOpt, a []string) error { ran += "c;"; return nil })
	if !ownAtRoot {
		target = cmd.String("required", "", req(cmd), cmd.Alias("rq"), cmd.GetEnv(c11env))
	}
	wrap := opt.NewCommand("wrap", "a wrapper")
	wrap.UnsetOptions().SetUnknownMode(Pass)
	wrap.SetCommandFn(func(ctx context.Context, o *GetOpt, a []string) error { ran += "wrap;"; return nil })
	opt.HelpCommand("help", opt.Alias("?"))

	var args []string
	sup := []string{}
	switch supply {
	case 1:
		sup = []string{"--required", val}
	case 2:
		sup = []string{"--rq", val}
	case 3:
		sup = []string{"--requ", val}
	}
	if level == 1 {
		if ownAtRoot {
			args = cat(sup, []string{"c"})
		} else {
			args = cat([]string{"c"}, sup)
		}
	} else {
		args = sup
	}
	switch help {
	case 1:
		args = append(args, "--help")
	case 2:
		args = append(args, "-?")
	case 3:
		args = append(args, "--hel")
	case 4:
		args = append(args, "help")
	case 5:
		vAssume(level == 0)
		args = append(args, "help", "c")
	case 6:
		vAssume(level == 0)
		args = append(args, "help", "nosuchtopic")
	case 7:
		// help requested before the name of a wrapper command (which has no inherited help option)
		vAssume(level == 0)
		args = append(args, "--help", "wrap")
	}
	vPhase("run")
	remaining, err := opt.Parse(args)
	var derr error
	if err == nil {
		derr = opt.Dispatch(context.Background(), remaining)
	}
	written := vWritten("Writer")
	vObserve("err", err)
	vObserve("derr", derr)
	vObserve("ran", ran)
	vObserve("written", written)
	final := err
	if final == nil {
		final = derr
	}
	supplied := supply != 0
	switch {
	case help == 6:
		// only an unknown topic given to the help command is answered with an error instead
		vAssert("help/unknown-topic-error", final != nil && !errors.Is(final, ErrorHelpCalled))
		vAssert("help/nothing-ran", ran == "")
		vReach("help-unknown-topic")
	case help != 0:
		vAssert("help/parse-ok", err == nil)
		vAssert("help/help-called", errors.Is(derr, ErrorHelpCalled))
		vAssert("help/nothing-ran", ran == "")
		vAssert("help/text-written", strings.Contains(written, "SYNOPSIS"))
		if help == 5 || level == 1 {
			vAssert("help/of-that-level", strings.Contains(written, " c "))
		}
		if help == 7 {
			vAssert("help/of-that-level", strings.Contains(written, " wrap "))
		}
		if final != nil {
			vAssert("help/no-missing-required-error", !errors.Is(final, ErrorParsing))
		}
		vReach("help")
	case !supplied:
		vAssert("missing/error", final != nil)
		vAssert("missing/is-error-parsing", errors.Is(final, ErrorParsing))
		vAssert("missing/nothing-ran", ran == "")
		if final != nil {
			if custom {
				vAssert("missing/custom-message", strings.Contains(final.Error(), msg))
			} else {
				vAssert("missing/names-option", strings.Contains(final.Error(), "required"))
			}
		}
		vReach("missing")
	default:
		vAssert("supplied/no-error", final == nil)
		vAssert("supplied/value", *target == val)
		if level == 1 {
			vAssert("supplied/ran", ran == "c;")
		} else {
			vAssert("supplied/ran", ran == "root;")
		}
		vReach("supplied")
	}
}

// Bundling with pass-through: the help letter or the letter of the required
// option counts wherever it stands in a bundle, also behind a letter that is
// not declared.
func VerifC11_Bundles() {
	vNativeReset()
	um := vInt("um", 1, 2)
	shape := vInt("shape", 0, 4)
	val := positional("val", "c", "help")
	ran := ""
	opt := New()
	opt.SetMode(Bundling)
	setUnknown(opt, um)
	target := opt.String("required", "", opt.Required("required is needed"), opt.Alias("r"))
	cmd := opt.NewCommand("c", "a command")
	cmd.SetCommandFn(func(ctx context.Context, o *GetOpt, a []string) error { ran += "c;"; return nil })
	opt.HelpCommand("help", opt.Alias("h"))
	var args []string
	wantHelp, wantRun := false, false
	switch shape {
	case 0:
		args, wantHelp = []string{"c", "-xh"}, true
	case 1:
		args, wantHelp = []string{"c", "-hx"}, true
	case 2:
		args, wantRun = []string{"c", "-xr", val}, true
	case 3:
		args, wantRun = []string{"c", "-r", val, "-x"}, true
	case 4:
		args = []string{"c", "-x"} // neither: the missing required option is reported
	}
	vPhase("run")
	remaining, err := opt.Parse(args)
	var derr error
	if err == nil {
		derr = opt.Dispatch(context.Background(), remaining)
	}
	written := vWritten("Writer")
	vObserve("err", err)
	vObserve("derr", derr)
	vObserve("ran", ran)
	final := err
	if final == nil {
		final = derr
	}
	switch {
	case wantHelp:
		vAssert("bundle/help-called", errors.Is(final, ErrorHelpCalled))
		vAssert("bundle/help-nothing-ran", ran == "")
		vAssert("bundle/help-text-written", strings.Contains(written, "SYNOPSIS"))
		vReach("help")
	case wantRun:
		vAssert("bundle/supplied-no-error", final == nil)
		vAssert("bundle/supplied-value", *target == val)
		vAssert("bundle/supplied-ran", ran == "c;")
		vReach("supplied")
	default:
		vAssert("bundle/missing-error", final != nil && errors.Is(final, ErrorParsing))
		vAssert("bundle/missing-nothing-ran", ran == "")
		vReach("missing")
	}
}

// A required option declared on the program after some commands exist and
// before another one is created is enforced for all of them, also without a
// help command declared afterwards.
func VerifC11_LateRequired() {
	vNativeReset()
	target := vInt("target", 0, 2) // a, a sub, b
	supplied := vBool("supplied")
	val := positional("val", "a", "b", "sub")
	ran := ""
	opt := New()
	fn := func(who string) CommandFn {
		return func(ctx context.Context, o *GetOpt, a []string) error { ran += who + ";"; return nil }
	}
	a := opt.NewCommand("a", "")
	a.SetCommandFn(fn("a"))
	a.NewCommand("sub", "").SetCommandFn(fn("sub"))
	tok := opt.String("tok", "", opt.Required("tok is needed"))
	opt.NewCommand("b", "").SetCommandFn(fn("b"))
	args := [][]string{{"a"}, {"a", "sub"}, {"b"}}[target]
	want := []string{"a;", "sub;", "b;"}[target]
	if supplied {
		args = append(args, "--tok", val)
	}
	vPhase("run")
	remaining, err := opt.Parse(args)
	var derr error
	if err == nil {
		derr = opt.Dispatch(context.Background(), remaining)
	}
	final := err
	if final == nil {
		final = derr
	}
	vObserve("final", final)
	vObserve("ran", ran)
	if supplied {
		vAssert("late-required/supplied-no-error", final == nil)
		vAssert("late-required/supplied-ran", ran == want)
		vAssert("late-required/value", *tok == val)
		vReach("supplied")
	} else {
		vAssert("late-required/missing-error", final != nil && errors.Is(final, ErrorParsing))
		vAssert("late-required/nothing-ran", ran == "")
		vReach("missing")
	}
}

//go:build verif

package getoptions

// C04: `--` ends option parsing; everything after it is returned untouched.

import "context"

func VerifC04_Terminator() {
	mode := vInt("mode", 0, 2)
	um := vInt("um", 0, 2)
	ro := vBool("ro")
	ctx := vInt("ctx", 0, 17)
	t1, t2 := vString("t1"), vString("t2")
	x := vString("x")

	opt := New()
	setMode(opt, mode)
	setUnknown(opt, um)
	if ro {
		opt.SetRequireOrder()
	}
	flag := opt.Bool("flag", false)
	str := opt.String("str", "d")
	z := opt.String("z", "d")
	sopt := opt.StringOptional("sopt", "dd")
	iopt := opt.IntOptional("iopt", 5)
	fopt := opt.Float64Optional("fopt", 2.5)
	flist := opt.Float64Slice("flist", 1, 3)
	list := opt.StringSlice("list", 1, 3)
	ilist := opt.IntSlice("ilist", 1, 3)
	m := opt.StringMap("map", 1, 3)
	ran := ""
	var got []string
	opt.SetCommandFn(func(c context.Context, o *GetOpt, a []string) error { ran += "root;"; got = a; return nil })
	cmd := opt.NewCommand("cmd", "")
	cmd.SetCommandFn(func(c context.Context, o *GetOpt, a []string) error { ran += "cmd;"; got = a; return nil })

	var pre, keep []string
	switch ctx {
	case 0:
	case 1:
		p := positional("p", "cmd")
		pre, keep = []string{p}, []string{p}
	case 2:
		pre = []string{"--flag"}
	case 3:
		vAssume(!isOptionLooking(x))
		pre = []string{"--str", x}
	case 4:
		pre = []string{"--sopt"}
	case 5:
		vAssume(!isOptionLooking(x))
		pre = []string{"--list", x}
	case 6:
		vAssume(x != "")
		pre = []string{"--list=" + x}
	case 7:
		pre = []string{"--map", "k=" + x}
	case 8:
		pre = []string{"cmd"}
	case 9:
		pre = []string{"--ilist", "7"}
	case 10:
		pre = []string{"--map=k=" + x}
	case 11:
		pre = []string{"--iopt"}
	case 12:
		pre = []string{"--fopt"}
	case 13:
		pre = []string{"--flist", "1.5"}
	case 14:
		// one extra value already taken, room for one more
		vAssume(!isOptionLooking(x))
		pre = []string{"--list", x, "second"}
	case 15:
		pre = []string{"--ilist", "7", "8"}
	case 16:
		// attached value of any shape (e.g. only `=` signs), long spelling
		vAssume(x != "")
		pre = []string{"--z=" + x}
	case 17:
		// the same with a single dash (Normal: option z; Bundling: a bundle of one letter)
		vAssume(mode != 2)
		vAssume(x != "")
		pre = []string{"-z=" + x}
	}
	vPhase("run")
	tail := []string{t1, t2}
	if vThorough() {
		tail = append(tail, vString("t3")) // a third unconstrained tail token
	}
	args := cat(pre, []string{"--"}, tail)
	remaining, err := opt.Parse(args)
	vObserve("err", err)
	vObserve("remaining", remaining)
	vAssert("no-error", err == nil)
	if ro && ctx == 1 {
		// require-order stopped at the positional: the rest, `--` included, is handed over verbatim
		vAssert("remaining-exact", eqStrs(remaining, cat(keep, []string{"--"}, tail)))
	} else {
		vAssert("remaining-exact", eqStrs(remaining, cat(keep, tail)))
	}
	vAssert("tail-verbatim", endsWith(remaining, tail...))
	// nothing behind `--` takes effect
	vAssert("flag", *flag == (ctx == 2))
	vAssert("flag-called", opt.Called("flag") == (ctx == 2))
	if ctx == 3 {
		vAssert("str", *str == x)
	} else {
		vAssert("str", *str == "d")
	}
	if ctx == 16 || ctx == 17 {
		vAssert("attached-value-exact", *z == x)
	} else {
		vAssert("z-default", *z == "d")
	}
	vAssert("sopt-default", *sopt == "dd")
	vAssert("sopt-called", opt.Called("sopt") == (ctx == 4))
	vAssert("iopt-default", *iopt == 5)
	vAssert("iopt-called", opt.Called("iopt") == (ctx == 11))
	vAssert("fopt-default", *fopt == 2.5)
	vAssert("fopt-called", opt.Called("fopt") == (ctx == 12))
	if ctx == 13 {
		vAssert("flist", len(*flist) == 1 && (*flist)[0] == 1.5)
	} else {
		vAssert("flist", len(*flist) == 0)
	}
	if ctx == 5 || ctx == 6 {
		vAssert("list", eqStrs(*list, []string{x}))
	} else if ctx == 14 {
		vAssert("list", eqStrs(*list, []string{x, "second"}))
	} else {
		vAssert("list", len(*list) == 0)
	}
	if ctx == 9 {
		vAssert("ilist", eqInts(*ilist, []int{7}))
	} else if ctx == 15 {
		vAssert("ilist", eqInts(*ilist, []int{7, 8}))
	} else {
		vAssert("ilist", len(*ilist) == 0)
	}
	if ctx == 7 || ctx == 10 {
		vAssert("map-len", len(m) == 1)
		vAssert("map", m["k"] == x)
	} else {
		vAssert("map-len", len(m) == 0)
	}
	if err == nil {
		derr := opt.Dispatch(context.Background(), remaining)
		vAssert("dispatch-no-error", derr == nil)
		if ctx == 8 {
			vAssert("dispatch-target", ran == "cmd;")
		} else {
			vAssert("dispatch-target", ran == "root;")
		}
		vAssert("dispatch-args", eqStrs(got, remaining))
		vReach("dispatched")
	}
}

// The exempted case: `--` directly after an option whose mandatory value is
// still missing. Nothing is demanded about `--` itself; the call must still
// return normally and a failed Parse must return nil remaining.
func VerifC04_MissingMandatory() {
	mode := vInt("mode", 0, 2)
	t1 := vString("t1")
	opt := New()
	setMode(opt, mode)
	str := opt.String("str", "d")
	vPhase("run")
	remaining, err := opt.Parse([]string{"--str", "--", t1})
	vObserve("err", err)
	vObserve("remaining", remaining)
	vObserve("str", *str)
	if err != nil {
		vAssert("failed-parse-nil-remaining", remaining == nil)
	}
	vReach("returned")
}

// Relational, for ANY token before the terminator: the same command line with
// and without a two-token tail behind `--` gives the same error-ness, the same
// option values and Called state, and the remaining list only grows by the
// tail - unless `--` itself was taken as a value (the exempted case).
func VerifC04_RawBefore() {
	mode := vInt("mode", 0, 2)
	um := vInt("um", 0, 2)
	ro := vBool("ro")
	vBound("runes", 2)
	vBound("digits", 12) // numeral boundaries are C01's subject
	t0 := vString("t0")
	front := []string{t0}
	if vThorough() {
		front = append(front, vString("t0b")) // two unconstrained tokens in front
	}
	t1, t2 := vString("t1"), vString("t2")
	define := func() relProg { return relDefine(mode, um, ro) }
	a, b, c := define(), define(), define()
	vPhase("run")
	// the exempted case: the token alone still misses a mandatory value (or is
	// rejected for another reason) - then `--` may legitimately become that value
	_, errC := c.opt.Parse(front)
	if errC != nil {
		vReach("exempt")
		return
	}
	remB, errB := b.opt.Parse(cat(front, []string{"--"}))
	remA, errA := a.opt.Parse(cat(front, []string{"--", t1, t2}))
	vObserve("errB", errB != nil)
	vObserve("remB", remB)
	vAssert("same/error-ness", (errA == nil) == (errB == nil))
	if errA != nil || errB != nil {
		return
	}
	vAssert("remaining-grows-by-the-tail", eqStrs(remA, cat(remB, []string{t1, t2})))
	relSame(a, b)
	vReach("compared")
}

// relProg: the program of the relational raw harnesses (C04, C09): one-letter
// names, one option of each consuming behaviour, a command with a flag.
type relProg struct {
	opt  *GetOpt
	b    *bool
	s    *string
	so   *string
	l    *[]string
	i    *int
	cmdx *bool
}

func relDefine(mode, um int, ro bool) relProg {
	opt := New()
	setMode(opt, mode)
	setUnknown(opt, um)
	if ro {
		opt.SetRequireOrder()
	}
	p := relProg{opt: opt}
	p.b = opt.Bool("b", false)
	p.s = opt.String("s", "d")
	p.so = opt.StringOptional("o", "do")
	p.l = opt.StringSlice("l", 1, 2)
	p.i = opt.Int("i", 5)
	cmd := opt.NewCommand("c", "")
	p.cmdx = cmd.Bool("x", false)
	return p
}

// relSame asserts that two runs left the same option state behind.
func relSame(a, b relProg) {
	vAssert("same/b", *a.b == *b.b)
	vAssert("same/s", *a.s == *b.s)
	vAssert("same/o", *a.so == *b.so)
	vAssert("same/l", eqStrs(*a.l, *b.l))
	vAssert("same/i", *a.i == *b.i)
	vAssert("same/x", *a.cmdx == *b.cmdx)
	for _, n := range []string{"b", "s", "o", "l", "i"} {
		vAssert("same/called", a.opt.Called(n) == b.opt.Called(n))
	}
}

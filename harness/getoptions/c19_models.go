//go:build verif

package getoptions

import (
	"bytes"
	"fmt"
	"os"
	"sort"
	"strings"
	"unicode/utf8"
)

// Engine self-test: library models used only by changed code are compared with
// the native run through the usual concordance (part of C19's check).
func VerifC19_ModelSelfTest() {
	vNativeReset()
	s := vString("s")
	var sb strings.Builder
	sb.WriteString("<")
	sb.WriteString(s)
	sb.WriteByte('|')
	sb.WriteRune('é')
	fmt.Fprintf(&sb, "%d>", 7)
	vObserve("builder", sb.String())
	vObserve("builderlen", sb.Len())
	var bb bytes.Buffer
	bb.WriteByte('x')
	bb.WriteString(s)
	vObserve("buffer", bb.String())
	bb.Reset()
	vObserve("bufferreset", bb.Len())
	a, b, ok := strings.Cut(s, "=")
	vObserve("cut", a+"|"+b)
	vObserve("cutok", ok)
	if ok {
		vAssert("cut/recompose", a+"="+b == s)
		vAssert("cut/first", !strings.Contains(a, "="))
	} else {
		vAssert("cut/none", a == s && b == "")
	}
	r, ok2 := strings.CutPrefix(s, "--")
	vObserve("cutprefix", r)
	vObserve("cutprefixok", ok2)
	r3, ok3 := strings.CutSuffix(s, "=")
	vObserve("cutsuffix", r3)
	vObserve("cutsuffixok", ok3)
	ib := strings.IndexByte(s, '.')
	vObserve("indexbyte", ib)
	if ib >= 0 {
		vAssert("indexbyte/points-at-byte", s[ib] == '.')
		vAssert("indexbyte/first", !strings.Contains(s[:ib], "."))
	}
	vObserve("indexrune", strings.IndexRune(s, 'é'))
	vObserve("containsrune", strings.ContainsRune(s, '='))
	vObserve("equalfold", strings.EqualFold(s, "false"))
	vObserve("equalfold-k", strings.EqualFold("ok", s))
	_, have := os.LookupEnv("VERIF_NOT_SET_ANYWHERE")
	vObserve("lookupenv", have)
	vObserve("runes", utf8.RuneCountInString("héllo"))
	vObserve("upper", strings.ToUpper("abc"))
	vObserve("fields", len(strings.Fields(" a  b ")))
	up := strings.Map(func(r rune) rune {
		if r == 'a' {
			return 'A'
		}
		return r
	}, "banana")
	vObserve("map", up)
	vObserve("indexfunc", strings.IndexFunc("ab1c", func(r rune) bool { return r >= '0' && r <= '9' }))
	vObserve("trimfunc", strings.TrimFunc("  x y  ", func(r rune) bool { return r == ' ' }))
	vObserve("fieldsfunc", len(strings.FieldsFunc("a,b;;c", func(r rune) bool { return r == ',' || r == ';' })))
	names := []string{"b", "a", "c"}
	sort.SliceStable(names, func(i, j int) bool { return names[i] < names[j] })
	vObserve("slicestable", strings.Join(names, ""))
	vReach("done")
}

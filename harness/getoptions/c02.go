//go:build verif

package getoptions

// C02: multi-value options consume the right tokens and keep every value in order.

import (
	"context"
	"math"
	"strconv"
	"strings"
)

const (
	mkStrings = iota
	mkInts
	mkFloats
	mkMap
)

const (
	tcGood   = iota // value-like and well formed for the element type
	tcBad           // value-like, not well formed for the element type
	tcFlag          // --flag
	tcDash          // -
	tcTerm          // --
	tcCmd           // the command name
	tcNumTok = 6
)

type c02tok struct {
	text  string
	class int
	key   string // map kind: key and value of a well-formed token
	val   string
}

// c02value builds a symbolic token of the requested class for the element kind.
func c02value(kind int, class int, name string) c02tok {
	t := c02tok{class: class}
	switch class {
	case tcFlag:
		t.text = "--flag"
	case tcDash:
		t.text = "-"
	case tcTerm:
		t.text = "--"
	case tcCmd:
		t.text = "cmd"
	case tcGood:
		switch kind {
		case mkStrings:
			t.text = vString(name)
			vAssume(!isOptionLooking(t.text))
			vAssume(t.text != "cmd")
		case mkInts:
			// canonical numerals (numeral syntax is the subject of C01)
			x := vInt(name+"_i", 0, 1000000)
			t.text = strconv.Itoa(x)
		case mkFloats:
			t.text = vString(name)
			vAssume(!isOptionLooking(t.text))
			_, err := strconv.ParseFloat(t.text, 64)
			vAssume(err == nil)
		case mkMap:
			t.key = vString(name + "_k")
			t.val = vString(name + "_v")
			vAssume(!strings.Contains(t.key, "="))
			vAssume(!isOptionLooking(t.key))
			t.text = t.key + "=" + t.val
		}
	case tcBad:
		// value-like, but not well formed for ints, floats and maps: starts with
		// a letter outside every numeral syntax and contains no '='
		w := vString(name)
		vAssume(!strings.Contains(w, "="))
		t.text = "z" + w
	}
	return t
}

func c02wellFormed(kind int, t c02tok) bool {
	switch t.class {
	case tcGood:
		return true
	case tcCmd:
		return kind == mkStrings
	}
	return false
}

func VerifC02_Consume() {
	mode := vInt("mode", 0, 2)
	kind := vInt("kind", 0, 3)
	min := vInt("min", 1, math.MaxInt64)
	max := vInt("max", 1, math.MaxInt64)
	vAssume(min <= max)
	attached := vBool("attached")
	nTok := 2
	if vThorough() {
		nTok = 3
	}
	n := vInt("ntok", 0, nTok)

	opt := New()
	setMode(opt, mode)
	opt.SetUnknownMode(Pass)
	var ps *[]string
	var pi *[]int
	var pf *[]float64
	var pm map[string]string
	switch kind {
	case mkStrings:
		ps = opt.StringSlice("name", min, max)
	case mkInts:
		pi = opt.IntSlice("name", min, max)
	case mkFloats:
		pf = opt.Float64Slice("name", min, max)
	case mkMap:
		pm = opt.StringMap("name", min, max)
	}
	flag := opt.Bool("flag", false)
	ran := ""
	opt.SetCommandFn(func(c context.Context, o *GetOpt, a []string) error { ran += "root;"; return nil })
	cmd := opt.NewCommand("cmd", "")
	cmd.SetCommandFn(func(c context.Context, o *GetOpt, a []string) error { ran += "cmd;"; return nil })

	// the command line
	var consumed []c02tok
	var args []string
	if attached {
		t := c02value(kind, tcGood, "v0")
		if kind != mkMap {
			vAssume(t.text != "")
		}
		args = append(args, "--name="+t.text)
		consumed = append(consumed, t)
	} else {
		args = append(args, "--name")
	}
	var toks []c02tok
	for j := 0; j < n; j++ {
		class := vInt("class"+strconv.Itoa(j), 0, tcNumTok-1)
		if class == tcBad && kind == mkStrings {
			vAssume(false) // every value-like token is well formed for strings
		}
		t := c02value(kind, class, "t"+strconv.Itoa(j))
		toks = append(toks, t)
		args = append(args, t.text)
	}

	// oracle by construction
	i := len(consumed)
	pos := 0
	fail := false
	for ; i < min; i++ {
		if pos >= len(toks) {
			fail = true
			break
		}
		t := toks[pos]
		if t.class == tcTerm {
			// `--` as the still-missing mandatory value: exempted by the statement
			vAssume(false)
		}
		if t.class == tcFlag || t.class == tcDash || !c02wellFormed(kind, t) {
			fail = true
			break
		}
		consumed = append(consumed, t)
		pos++
	}
	if !fail {
		for ; i < max; i++ {
			if pos >= len(toks) {
				break
			}
			t := toks[pos]
			if t.class == tcFlag || t.class == tcDash || t.class == tcTerm || !c02wellFormed(kind, t) {
				break
			}
			consumed = append(consumed, t)
			pos++
		}
	}
	// what is left is interpreted normally
	wantFlag := false
	wantCmd := false
	wantRemaining := []string{}
	for k := pos; k < len(toks) && !fail; k++ {
		t := toks[k]
		switch {
		case t.class == tcFlag:
			wantFlag = true
		case t.class == tcTerm:
			for _, r := range toks[k+1:] {
				wantRemaining = append(wantRemaining, r.text)
			}
			k = len(toks)
		case t.class == tcCmd && !wantCmd:
			wantCmd = true
		default:
			wantRemaining = append(wantRemaining, t.text)
		}
	}

	vPhase("run")
	remaining, err := opt.Parse(args)
	vObserve("err", err)
	vObserve("remaining", remaining)
	if fail {
		vAssert("too-few/error", err != nil)
		vAssert("too-few/remaining-nil", remaining == nil)
		vReach("too-few")
		return
	}
	vAssert("no-error", err == nil)
	vAssert("called", opt.Called("name"))
	switch kind {
	case mkStrings:
		var want []string
		for _, t := range consumed {
			want = append(want, t.text)
		}
		vObserve("values", *ps)
		vAssert("values", eqStrs(*ps, want))
	case mkInts:
		var want []int
		for _, t := range consumed {
			x, _ := strconv.Atoi(t.text)
			want = append(want, x)
		}
		vObserve("values", *pi)
		vAssert("values", eqInts(*pi, want))
	case mkFloats:
		vAssert("values-len", len(*pf) == len(consumed))
		ok := len(*pf) == len(consumed)
		for j := 0; ok && j < len(consumed); j++ {
			x, _ := strconv.ParseFloat(consumed[j].text, 64)
			vAssert("values", math.Float64bits((*pf)[j]) == math.Float64bits(x))
		}
	case mkMap:
		// a repeated key keeps the last value
		for j, t := range consumed {
			last := true
			for _, u := range consumed[j+1:] {
				if u.key == t.key {
					last = false
				}
			}
			if last {
				got, present := pm[t.key]
				vAssert("map-key-present", present)
				vAssert("map-value", got == t.val)
			}
		}
		vAssert("map-size", len(pm) <= len(consumed))
	}
	vAssert("leftover/flag", *flag == wantFlag)
	vAssert("leftover/remaining", eqStrs(remaining, wantRemaining))
	if err == nil {
		derr := opt.Dispatch(context.Background(), remaining)
		vAssert("leftover/dispatch-no-error", derr == nil)
		if wantCmd {
			vAssert("leftover/command", ran == "cmd;")
		} else {
			vAssert("leftover/command", ran == "root;")
		}
	}
	vReach("consumed")
}

// Definitions with min < 1 or max < min must be rejected when they are made.
func VerifC02_DefinitionBounds() {
	kind := vInt("kind", 0, 3)
	min := vInt("min", math.MinInt64, math.MaxInt64)
	max := vInt("max", math.MinInt64, math.MaxInt64)
	opt := New()
	switch kind {
	case mkStrings:
		opt.StringSlice("name", min, max)
	case mkInts:
		opt.IntSlice("name", min, max)
	case mkFloats:
		opt.Float64Slice("name", min, max)
	case mkMap:
		opt.StringMap("name", min, max)
	}
	vPhase("run")
	vAssert("definition-validated/min", min >= 1)
	vAssert("definition-validated/max", max >= min)
	vReach("accepted")
}

// Int ranges a..b with a<b expand inclusively, as mandatory or `=`-attached value.
func VerifC02_Range() {
	mode := vInt("mode", 0, 2)
	attached := vBool("attached")
	a := vInt("a", -4611686018427387904, 4611686018427387904)
	d := vInt("d", 1, 3)
	// what the option already holds when the range arrives: nothing, one value
	// from an earlier occurrence, two values from an earlier occurrence, or one
	// earlier mandatory value of the same occurrence (min 2)
	before := vInt("before", 0, 3)
	b := a + d
	sa, sb := strconv.Itoa(a), strconv.Itoa(b)
	if !attached {
		vAssume(a >= 0) // a detached value must not look like an option
	}
	opt := New()
	setMode(opt, mode)
	min, max := 1, 2
	if before == 3 {
		vAssume(!attached)
		min, max = 2, 3
	}
	pi := opt.IntSlice("name", min, max)
	vPhase("run")
	var args []string
	var held []int
	switch before {
	case 1:
		args, held = []string{"--name", "7"}, []int{7}
	case 2:
		args, held = []string{"--name", "7", "8"}, []int{7, 8}
	}
	if attached {
		args = append(args, "--name="+sa+".."+sb, "5")
	} else if before == 3 {
		args, held = append(args, "--name", "9", sa+".."+sb, "5"), []int{9}
	} else {
		args = append(args, "--name", sa+".."+sb, "5")
	}
	remaining, err := opt.Parse(args)
	vObserve("err", err)
	vObserve("values", *pi)
	vAssert("no-error", err == nil)
	vAssert("remaining-empty", len(remaining) == 0)
	h := len(held)
	vAssert("length", len(*pi) == h+d+2)
	if len(*pi) == h+d+2 {
		for k := 0; k < h; k++ {
			vAssert("earlier-values-kept", (*pi)[k] == held[k])
		}
		for k := 0; k <= d; k++ {
			vAssert("element", (*pi)[h+k] == a+k)
		}
		vAssert("following-value", (*pi)[h+d+1] == 5)
	}
	vReach("expanded")
}

// Int list elements as ANY text: a text that Go's decimal conversion accepts is
// stored as exactly that number, everything else (leading-zero forms read in
// another base, prefixes, underscores, junk) is an error when the value is
// mandatory or attached.
func VerifC02_IntTexts() {
	mode := vInt("mode", 0, 2)
	attached := vBool("attached")
	vBound("digits", 12)
	v := vString("v")
	vAssume(v != "")
	vAssume(!strings.Contains(v, "..")) // ranges: VerifC02_Range
	if !attached {
		vAssume(!isOptionLooking(v))
	}
	opt := New()
	setMode(opt, mode)
	pi := opt.IntSlice("ints", 1, 2)
	opt.NewCommand("cmd", "")
	vPhase("run")
	var args []string
	if attached {
		args = []string{"--ints=" + v}
	} else {
		args = []string{"--ints", v}
	}
	remaining, err := opt.Parse(args)
	vObserve("err", err != nil)
	vObserve("values", *pi)
	want, cerr := strconv.Atoi(v)
	if cerr == nil {
		vAssert("int-text/no-error", err == nil)
		vAssert("int-text/one-element", len(*pi) == 1)
		if len(*pi) == 1 {
			vAssert("int-text/decimal-value", (*pi)[0] == want)
		}
		vAssert("int-text/remaining-empty", len(remaining) == 0)
		vReach("stored")
	} else {
		vAssert("int-text/invalid-error", err != nil)
		vReach("rejected")
	}
}

// An attached value of ANY shape (it may start with `=`) reaches a list or a
// map option verbatim, in the long and in the one-dash spelling.
func VerifC02_AttachedRaw() {
	mode := vInt("mode", 0, 1)
	oneDash := vBool("onedash")
	isMap := vBool("map")
	v := vString("v")
	vAssume(v != "")
	opt := New()
	setMode(opt, mode)
	pl := opt.StringSlice("l", 1, 1)
	pm := opt.StringMap("m", 1, 1)
	dash := "--"
	if oneDash {
		dash = "-"
	}
	vPhase("run")
	var args []string
	if isMap {
		args = []string{dash + "m=k=" + v}
	} else {
		args = []string{dash + "l=" + v}
	}
	remaining, err := opt.Parse(args)
	vObserve("err", err != nil)
	vAssert("attached-raw/no-error", err == nil)
	vAssert("attached-raw/remaining-empty", len(remaining) == 0)
	if isMap {
		vAssert("attached-raw/map", len(pm) == 1 && pm["k"] == v)
	} else {
		vAssert("attached-raw/list", eqStrs(*pl, []string{v}))
	}
	vReach("stored")
}

//go:build verif

package getoptions

// C03: remaining arguments are conserved.

import (
	"context"
	"strconv"
	"strings"
)

// rawDefinition: a small program with single-character names so that
// abbreviation matching (C05's subject) does not multiply paths.
func rawDefinition(mode, um int, ro bool) (*GetOpt, *bool, *string) {
	opt := New()
	setMode(opt, mode)
	setUnknown(opt, um)
	if ro {
		opt.SetRequireOrder()
	}
	b := opt.Bool("b", false)
	s := opt.String("s", "d")
	opt.SetCommandFn(func(c context.Context, o *GetOpt, a []string) error { return nil })
	cmd := opt.NewCommand("c", "")
	cmd.Bool("x", false)
	cmd.SetCommandFn(func(c context.Context, o *GetOpt, a []string) error { return nil })
	sub := cmd.NewCommand("sub", "")
	sub.SetCommandFn(func(c context.Context, o *GetOpt, a []string) error { return nil })
	return opt, b, s
}

func contains(list []string, s string) bool {
	ok := false
	for _, e := range list {
		ok = vOr(ok, e == s)
	}
	return ok
}

// conservationAsserts states rules (i)-(iv) of DESIGN.md section C03 for a
// successful Parse of args over rawDefinition.
func conservationAsserts(args, remaining []string, um int, mode int) {
	// (i) order-preserving sub-list: nothing invented, altered, reordered, duplicated
	pos := -1
	for _, r := range remaining {
		found := false
		for j := pos + 1; j < len(args); j++ {
			if r == args[j] {
				pos = j
				found = true
				break
			}
		}
		vAssert("sublist", found)
		if !found {
			return
		}
	}
	// rules (ii)-(iv): the tokens that must be retained, in input order
	var must []string
	termAt := -1 // first `--` reached by the parser
	for j, t := range args {
		prevDash := j > 0 && strings.HasPrefix(args[j-1], "-")
		if termAt >= 0 {
			// (iv) the tail behind the first `--` is there verbatim
			must = append(must, t)
			continue
		}
		if t == "--" && !prevDash {
			termAt = j
			continue
		}
		// (ii) plain positionals are retained
		if !strings.HasPrefix(t, "-") && t != "c" && t != "sub" && !prevDash {
			must = append(must, t)
			continue
		}
		// (iii-short) a single-dash first token (root level for certain) holding an
		// unknown option stays in Pass and Warn mode: -name / a bundle with a letter
		// other than b and s / -xREST with x other than b and s
		if um != 0 && j == 0 && strings.HasPrefix(t, "-") && !strings.HasPrefix(t, "--") && t != "-" {
			name := strings.SplitN(strings.TrimPrefix(t, "-"), "=", 2)[0]
			if name != "" {
				known := false
				switch mode {
				case 0:
					known = vOr(name == "b", name == "s")
				case 1:
					known = vOr(vOr(vOr(name == "b", name == "s"), vOr(name == "bb", name == "bs")), vOr(name == "sb", name == "ss"))
				case 2:
					known = vOr(strings.HasPrefix(name, "b"), strings.HasPrefix(name, "s"))
				}
				if !known {
					must = append(must, t)
					continue
				}
			}
		}
		// (iii) unknown long options stay in Pass and Warn mode
		if um != 0 && strings.HasPrefix(t, "--") && t != "--" && !prevDash {
			name := strings.SplitN(strings.TrimPrefix(t, "--"), "=", 2)[0]
			if name != "" && !strings.HasPrefix("b", name) && !strings.HasPrefix("s", name) && !strings.HasPrefix("x", name) {
				must = append(must, t)
			}
		}
	}
	// each of them has its own place in remaining, in order (multiplicity counts)
	at := 0
	for _, t := range must {
		found := false
		for at < len(remaining) {
			hit := remaining[at] == t
			at++
			if hit {
				found = true
				break
			}
		}
		vAssert("retained-in-order", found)
		if !found {
			return
		}
	}
	if termAt >= 0 {
		vAssert("tail-verbatim", endsWith(remaining, args[termAt+1:]...))
	}
}

func VerifC03_Raw() {
	mode := vInt("mode", 0, 2)
	um := vInt("um", 0, 2)
	ro := vBool("ro")
	n := 2
	if vThorough() && mode == 0 && !ro {
		n = 3 // three raw tokens in Normal mode (all unknown modes)
	}
	vBound("runes", 2) // bundles of at most two letters; wider ones are C07's subject
	var args []string
	for j := 0; j < n; j++ {
		args = append(args, vString("t"+strconv.Itoa(j)))
	}
	opt, _, _ := rawDefinition(mode, um, ro)
	vPhase("run")
	remaining, err := opt.Parse(args)
	vObserve("err", err)
	vObserve("remaining", remaining)
	if err != nil {
		vAssert("failed-parse-nil-remaining", remaining == nil)
		vReach("failed")
		return
	}
	conservationAsserts(args, remaining, um, mode)
	vReach("parsed")
}

// Constructed shapes: positionals and unknown options before and after a
// command token; bundles with two unknown letters in Pass mode.
func VerifC03_Constructed() {
	mode := vInt("mode", 0, 2)
	um := vInt("um", 1, 2)
	shape := vInt("shape", 0, 14)
	p := positional("p", "c", "sub")
	q := positional("q", "c", "sub")
	vAssume(p != q)
	opt, _, _ := rawDefinition(mode, um, false)
	if shape == 9 || shape == 10 {
		// require-order set on the command only
		opt = New()
		setMode(opt, mode)
		setUnknown(opt, um)
		opt.Bool("b", false)
		c := opt.NewCommand("c", "")
		c.SetRequireOrder()
		c.Bool("x", false)
	}
	var args, want []string
	switch shape {
	case 9:
		args, want = []string{p, "--typo", "c", q, "--x", p}, []string{p, "--typo", q, "--x", p}
	case 10:
		args, want = []string{p, "c", "--nope", "--x"}, []string{p, "--nope", "--x"}
	case 0:
		args, want = []string{p, "c", q}, []string{p, q}
	case 1:
		args, want = []string{"--typo", "c", q}, []string{"--typo", q}
	case 2:
		args, want = []string{"c", p, "--typo"}, []string{p, "--typo"}
	case 3:
		// a bundle whose letters are all unknown appears once
		vAssume(mode == 1)
		args, want = []string{"-yz", p}, []string{"-yz", p}
	case 4:
		// text between two command levels
		args, want = []string{"c", p, "sub", q}, []string{p, q}
	case 5:
		args, want = []string{p, "c", q, "sub", p}, []string{p, q, p}
	case 6:
		args, want = []string{"c", "--typo=1", "sub", "--x"}, []string{"--typo=1"}
	case 7:
		// the same unknown token twice, a known option in between
		args, want = []string{"--typo", "--b", "--typo", p}, []string{"--typo", "--typo", p}
	case 8:
		args, want = []string{"-", "-", p, p}, []string{"-", "-", p, p}
	case 11:
		// a bundle whose first letter takes the next token as its value and whose
		// second letter is unknown: the bundle stays, the value does not
		vAssume(mode == 1)
		args, want = []string{"-sy", p, q}, []string{"-sy", q}
	case 12:
		vAssume(mode == 1)
		args, want = []string{"-sy=1", p, q}, []string{"-sy=1", q}
	case 14:
		// three letters: unknown, a known one that takes the next token, unknown
		vAssume(mode == 1)
		args, want = []string{p, "-ysz", q, p}, []string{p, "-ysz", p}
	case 13:
		// the same with require-order: the bundle and everything behind the value
		vAssume(mode == 1)
		opt, _, _ = rawDefinition(mode, um, true)
		args, want = []string{"-sy", p, q, "--b"}, []string{"-sy", q, "--b"}
	}
	vPhase("run")
	remaining, err := opt.Parse(args)
	vObserve("err", err)
	vObserve("remaining", remaining)
	vAssert("no-error", err == nil)
	vAssert("remaining-exact", eqStrs(remaining, want))
	vReach("parsed")
}

// Different unknown modes at the root and at the command (set after the
// command was created, or on the command itself): whenever Parse succeeds the
// unknown token is still in remaining, whichever level's mode decided.
func VerifC03_MixedUnknownModes() {
	mode := vInt("mode", 0, 2)
	umRoot := vInt("umroot", 0, 2)
	umCmd := vInt("umcmd", 0, 2)
	late := vBool("late") // the root's mode is set after NewCommand (the command keeps the old one)
	where := vInt("where", 0, 2)
	p := positional("p", "c", "sub")
	opt := New()
	setMode(opt, mode)
	if !late {
		setUnknown(opt, umRoot)
	}
	opt.Bool("b", false)
	c := opt.NewCommand("c", "")
	c.Bool("x", false)
	if late {
		setUnknown(opt, umRoot)
	} else {
		setUnknown(c, umCmd)
	}
	var args, want []string
	switch where {
	case 0:
		args, want = []string{"c", "--x", "--typo", p}, []string{"--typo", p}
	case 1:
		args, want = []string{"--typo", "c", "--x", p}, []string{"--typo", p}
	case 2:
		args, want = []string{"--b", "c", p, "--typo=1"}, []string{p, "--typo=1"}
	}
	vPhase("run")
	remaining, err := opt.Parse(args)
	vObserve("err", err != nil)
	vObserve("remaining", remaining)
	if err != nil {
		vAssert("failed-parse-nil-remaining", remaining == nil)
		vReach("failed")
		return
	}
	vAssert("remaining-exact", eqStrs(remaining, want))
	vReach("parsed")
}

// The help option on the command line does not excuse anything: whenever Parse
// succeeds the unknown token is in remaining (in Fail mode it must not succeed
// silently without it).
func VerifC03_WithHelpOption() {
	mode := vInt("mode", 0, 2)
	um := vInt("um", 0, 2)
	where := vInt("where", 0, 4)
	p := positional("p", "c", "sub", "help")
	opt, _, _ := rawDefinition(mode, um, false)
	opt.HelpCommand("help", opt.Alias("?"))
	var args, want []string
	switch where {
	case 0:
		args, want = []string{"--help", "--typo", p}, []string{"--typo", p}
	case 1:
		args, want = []string{"--typo=1", p, "--help"}, []string{"--typo=1", p}
	case 2:
		args, want = []string{"c", "--help", "--typo", p}, []string{"--typo", p}
	case 3:
		// text in front of the help command travels on like in front of any command
		args, want = []string{p, "help", "c"}, []string{p, "c"}
	case 4:
		args, want = []string{"c", p, "help"}, []string{p}
	}
	vPhase("run")
	remaining, err := opt.Parse(args)
	vObserve("err", err != nil)
	vObserve("remaining", remaining)
	if err != nil {
		vAssert("failed-parse-nil-remaining", remaining == nil)
		vReach("failed")
		return
	}
	vAssert("remaining-exact", eqStrs(remaining, want))
	vReach("parsed")
}

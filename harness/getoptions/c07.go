//go:build verif

package getoptions

// C07: single-dash modes follow the documented rewriting; long options ignore the mode.
// Relational: the outcome of a token must equal the outcome of its rewriting.

import "strings"

type c07prog struct {
	opt     *GetOpt
	a       *bool
	c       *int
	s       *string
	n       *int
	e       *string
	ny      *bool
	verbose *bool
	alpha   *bool
	sierra  *string
}

// c07late: the mode is set after the commands have been declared (the mode of
// the root at Parse time is the one that counts)
var c07late = false

func c07define(mode int) *c07prog {
	p := &c07prog{opt: New()}
	if !c07late {
		setMode(p.opt, mode)
	}
	p.a = p.opt.Bool("a", false)
	p.c = p.opt.Increment("c", 0)
	p.s = p.opt.String("s", "ds")
	p.n = p.opt.Int("n", 7)
	p.e = p.opt.String("é", "de")
	p.ny = p.opt.Bool("ñ", false) // shares its first byte with é
	p.alpha = p.opt.Bool("alpha", false)
	p.sierra = p.opt.String("sierra", "dsierra")
	p.verbose = p.opt.Bool("verbose", false) // 'v' is a unique abbreviation of it
	p.opt.NewCommand("cmd", "")
	if c07late {
		setMode(p.opt, mode)
	}
	return p
}

var c07names = []string{"a", "c", "s", "n", "é", "ñ", "alpha", "sierra", "verbose"}

// sameOutcome asserts that two runs ended in the same observable state.
func sameOutcome(x, y *c07prog, remX, remY []string, errX, errY error) {
	vAssert("same/error-ness", (errX == nil) == (errY == nil))
	vAssert("same/remaining", eqStrs(remX, remY))
	vAssert("same/a", *x.a == *y.a)
	vAssert("same/c", *x.c == *y.c)
	vAssert("same/s", *x.s == *y.s)
	vAssert("same/n", *x.n == *y.n)
	vAssert("same/e", *x.e == *y.e)
	vAssert("same/ny", *x.ny == *y.ny)
	vAssert("same/verbose", *x.verbose == *y.verbose)
	vAssert("same/alpha", *x.alpha == *y.alpha)
	vAssert("same/sierra", *x.sierra == *y.sierra)
	for _, nm := range c07names {
		vAssert("same/called", x.opt.Called(nm) == y.opt.Called(nm))
		vAssert("same/called-as", x.opt.CalledAs(nm) == y.opt.CalledAs(nm))
	}
}

// trailing adds an optional detached value token after the option token.
func c07trailing() []string {
	if vBool("withvalue") {
		return []string{positional("w", "cmd")}
	}
	return nil
}

// Normal mode: -name[=v] is equivalent to --name[=v], for every name text.
func VerifC07_Normal() {
	nm := vString("nm")
	vAssume(nm != "")
	vAssume(!strings.HasPrefix(nm, "-"))
	vAssume(!strings.Contains(nm, "=")) // a name never contains '='
	tail := ""
	if vBool("attached") {
		tail = "=" + vString("v")
	}
	rest := c07trailing()
	x, y := c07define(0), c07define(0)
	vPhase("run")
	remX, errX := x.opt.Parse(cat([]string{"-" + nm + tail}, rest))
	remY, errY := y.opt.Parse(cat([]string{"--" + nm + tail}, rest))
	vObserve("errX", errX)
	vObserve("remX", remX)
	sameOutcome(x, y, remX, remY, errX, errY)
	vReach("compared")
}

var c07flagLetters = []string{"a", "c", "v"} // v abbreviates --verbose

// Bundling mode: -xyz[=v] with x,y flags and z any declared letter is
// equivalent to -x -y -z[=v].
func VerifC07_Bundling() {
	lx := c07flagLetters[vInt("x", 0, 2)]
	ly := c07flagLetters[vInt("y", 0, 2)]
	c07late = vBool("modelate")
	afterCmd := vBool("aftercmd")
	lz := c07sdLetters[vInt("z", 0, 5)] // the last letter may be a multibyte one
	width := vInt("width", 2, 3)
	tail := ""
	if vBool("attached") {
		tail = "=" + vString("v")
	}
	rest := c07trailing()
	var bundle string
	var split []string
	if width == 2 {
		bundle, split = "-"+lx+lz+tail, []string{"-" + lx, "-" + lz + tail}
	} else {
		bundle, split = "-"+lx+ly+lz+tail, []string{"-" + lx, "-" + ly, "-" + lz + tail}
	}
	x, y := c07define(1), c07define(1)
	c07late = false
	vPhase("run")
	var lead []string
	if afterCmd {
		lead = []string{"cmd"}
	}
	remX, errX := x.opt.Parse(cat(lead, []string{bundle}, rest))
	remY, errY := y.opt.Parse(cat(lead, split, rest))
	vObserve("errX", errX)
	vObserve("remX", remX)
	sameOutcome(x, y, remX, remY, errX, errY)
	// the rewritten form itself: declared one-letter options are recognised
	if lz == "a" || lz == "c" || lz == "ñ" {
		if tail == "" {
			vAssert("letters/flags-no-error", errY == nil)
			vAssert("letters/flag-a", *y.a == (lx == "a" || (width == 3 && ly == "a") || lz == "a"))
			vAssert("letters/abbreviated-flag", *y.verbose == (lx == "v" || (width == 3 && ly == "v")))
		}
	} else if (lz == "s" || lz == "é") && ((tail != "" && tail != "=") || len(rest) > 0) {
		vAssert("letters/valued-no-error", errY == nil)
		vAssert("letters/valued-called", y.opt.Called(lz))
	}
	vReach("compared")
}

var c07sdLetters = []string{"a", "c", "s", "n", "é", "ñ"}

// SingleDash mode: -xREST is equivalent to --x=REST and -x to --x.
func VerifC07_SingleDash() {
	lx := c07sdLetters[vInt("x", 0, 4)]
	c07late = vBool("modelate")
	afterCmd := vBool("aftercmd")
	withRest := vBool("withrest")
	rest := c07trailing()
	var tokX, tokY string
	if withRest {
		r := vString("rest")
		vAssume(r != "")
		if lx == "n" {
			vAssume(len(r) <= 6) // numeral syntax and range are C01's subject
		}
		tokX, tokY = "-"+lx+r, "--"+lx+"="+r
	} else {
		tokX, tokY = "-"+lx, "--"+lx
	}
	x, y := c07define(2), c07define(2)
	c07late = false
	vPhase("run")
	var lead []string
	if afterCmd {
		lead = []string{"cmd"}
	}
	remX, errX := x.opt.Parse(cat(lead, []string{tokX}, rest))
	remY, errY := y.opt.Parse(cat(lead, []string{tokY}, rest))
	if withRest && (lx == "s" || lx == "é") {
		// absolute: the letter takes the rest as its value in this mode
		vAssert("singledash/value-taken", errX == nil && x.opt.Called(lx))
	}
	vObserve("errX", errX)
	vObserve("remX", remX)
	vObserve("s", *x.s)
	vObserve("e", *x.e)
	sameOutcome(x, y, remX, remY, errX, errY)
	vReach("compared")
}

// Tokens starting with `--` are interpreted identically in all three modes.
func VerifC07_LongIgnoresMode() {
	m1 := vInt("m1", 0, 2)
	m2 := vInt("m2", 0, 2)
	vAssume(m1 < m2)
	t := vString("t")
	vAssume(strings.HasPrefix(t, "--"))
	rest := c07trailing()
	x, y := c07define(m1), c07define(m2)
	vPhase("run")
	remX, errX := x.opt.Parse(cat([]string{t}, rest))
	remY, errY := y.opt.Parse(cat([]string{t}, rest))
	vObserve("errX", errX)
	vObserve("remX", remX)
	sameOutcome(x, y, remX, remY, errX, errY)
	if errX != nil && errY != nil {
		vAssert("same/error-text", errX.Error() == errY.Error())
	}
	vReach("compared")
}

// SingleDash with bytes that are not valid UTF-8 in the attached rest (concrete
// byte patterns and surroundings; the symbolic harnesses stay inside valid UTF-8): `-xREST` still equals `--x=REST`
// byte for byte.
func VerifC07_SingleDashRawBytes() {
	lx := c07sdLetters[vInt("x", 0, 4)]
	vAssume(lx == "s" || lx == "é") // the two string-valued letters
	bad := []string{"\xff", "\x80", "\xc3", "\xe6\x97", "\xed\xa0\x80", "\xf8"}[vInt("bad", 0, 5)]
	pre := []string{"", "a"}[vInt("pre", 0, 1)]
	post := []string{"", "b", "=c"}[vInt("post", 0, 2)]
	r := pre + bad + post
	x, y := c07define(2), c07define(2)
	vPhase("run")
	remX, errX := x.opt.Parse([]string{"-" + lx + r})
	remY, errY := y.opt.Parse([]string{"--" + lx + "=" + r})
	vObserve("errX", errX)
	vObserve("s", *x.s)
	vObserve("e", *x.e)
	vAssert("rawbytes/reference-takes-the-value", errY == nil && (*y.s == r || *y.e == r))
	sameOutcome(x, y, remX, remY, errX, errY)
	vReach("compared")
}

// SingleDash with option letters of three and four bytes (and the replacement
// character itself as a declared letter): `-xREST` equals `--x=REST`.
func VerifC07_SingleDashWideLetters() {
	letter := []string{"世", "\uFFFD", "😀"}[vInt("letter", 0, 2)]
	rest := []string{"", "v", "=v", "世v", "\xffv"}[vInt("rest", 0, 4)]
	define := func() (*GetOpt, *string) {
		opt := New()
		opt.SetMode(SingleDash)
		p := opt.String(letter, "d")
		opt.Bool("b", false)
		return opt, p
	}
	x, px := define()
	y, py := define()
	vPhase("run")
	var remX, remY []string
	var errX, errY error
	if rest == "" {
		remX, errX = x.Parse([]string{"-" + letter, "w"})
		remY, errY = y.Parse([]string{"--" + letter, "w"})
	} else {
		remX, errX = x.Parse([]string{"-" + letter + rest})
		remY, errY = y.Parse([]string{"--" + letter + "=" + rest})
	}
	vObserve("errX", errX)
	vObserve("x", *px)
	vAssert("wide/same-error-ness", (errX == nil) == (errY == nil))
	vAssert("wide/same-value", *px == *py)
	vAssert("wide/same-remaining", eqStrs(remX, remY))
	vAssert("wide/same-called", x.Called(letter) == y.Called(letter))
	if rest != "" {
		vAssert("wide/value-is-the-rest", errX == nil && *px == rest)
	}
	vReach("compared")
}

//go:build verif

package getoptions

// Shared helpers of the getoptions harnesses. Harnesses use the public API;
// the only package-internal seams touched are Writer (exported), exitFn and
// completionWriter (the seams the repository's own tests use).

import (
	"math"
	"os"
	"strconv"
	"strings"
)

func vNativeReset() {
	Writer = vWriter("Writer")
	os.Args = []string{"prog"} // the program name shown in help texts
}

const (
	kString = iota
	kStringOptional
	kInt
	kIntOptional
	kFloat
	kFloatOptional
)

// scalar is one scalar option under test, of a symbolically chosen kind.
type scalar struct {
	kind int
	ps   *string
	pi   *int
	pf   *float64
	ds   string
	di   int
	df   float64
}

func isStringKind(k int) bool { return k == kString || k == kStringOptional }
func isIntKind(k int) bool    { return k == kInt || k == kIntOptional }
func isOptionalKind(k int) bool {
	return k == kStringOptional || k == kIntOptional || k == kFloatOptional
}

// defineScalar declares option name of the given kind with symbolic defaults.
// scalarVarForm: declare through the *Var forms, the variable holding something
// else than the declared default at that moment (set by a harness before defineScalar).
var scalarVarForm bool

func defineScalar(opt *GetOpt, kind int, name string, fns ...ModifyFn) *scalar {
	s := &scalar{kind: kind}
	switch kind {
	case kString, kStringOptional:
		s.ds = vString("def_s_" + name)
	case kInt, kIntOptional:
		s.di = vInt("def_i_"+name, math.MinInt64, math.MaxInt64)
	default:
		s.df = vFloat("def_f_" + name)
	}
	if scalarVarForm {
		vs, vi, vf := "stale", 99, 9.5
		switch kind {
		case kString:
			opt.StringVar(&vs, name, s.ds, fns...)
		case kStringOptional:
			opt.StringVarOptional(&vs, name, s.ds, fns...)
		case kInt:
			opt.IntVar(&vi, name, s.di, fns...)
		case kIntOptional:
			opt.IntVarOptional(&vi, name, s.di, fns...)
		case kFloat:
			opt.Float64Var(&vf, name, s.df, fns...)
		case kFloatOptional:
			opt.Float64VarOptional(&vf, name, s.df, fns...)
		}
		s.ps, s.pi, s.pf = &vs, &vi, &vf
		return s
	}
	switch kind {
	case kString:
		s.ps = opt.String(name, s.ds, fns...)
	case kStringOptional:
		s.ps = opt.StringOptional(name, s.ds, fns...)
	case kInt:
		s.pi = opt.Int(name, s.di, fns...)
	case kIntOptional:
		s.pi = opt.IntOptional(name, s.di, fns...)
	case kFloat:
		s.pf = opt.Float64(name, s.df, fns...)
	case kFloatOptional:
		s.pf = opt.Float64Optional(name, s.df, fns...)
	}
	return s
}

// holdsText asserts (under id) that the option holds exactly what text converts to.
// For numeric kinds the caller has established that text is a valid numeral.
func (s *scalar) assertHolds(id string, opt *GetOpt, name string, text string) {
	switch {
	case isStringKind(s.kind):
		vAssert(id+"/pointer", *s.ps == text)
		v, ok := opt.Value(name).(string)
		vAssert(id+"/value-type", ok)
		vAssert(id+"/value", v == text)
	case isIntKind(s.kind):
		want, err := strconv.Atoi(text)
		vAssert(id+"/oracle-ok", err == nil)
		vAssert(id+"/pointer", *s.pi == want)
		v, ok := opt.Value(name).(int)
		vAssert(id+"/value-type", ok)
		vAssert(id+"/value", v == want)
	default:
		want, err := strconv.ParseFloat(text, 64)
		vAssert(id+"/oracle-ok", err == nil)
		vAssert(id+"/pointer", math.Float64bits(*s.pf) == math.Float64bits(want))
		v, ok := opt.Value(name).(float64)
		vAssert(id+"/value-type", ok)
		vAssert(id+"/value", math.Float64bits(v) == math.Float64bits(want))
	}
}

// assertDefault asserts the option still holds its declared default.
func (s *scalar) assertDefault(id string) {
	switch {
	case isStringKind(s.kind):
		vAssert(id, *s.ps == s.ds)
	case isIntKind(s.kind):
		vAssert(id, *s.pi == s.di)
	default:
		vAssert(id, math.Float64bits(*s.pf) == math.Float64bits(s.df))
	}
}

// validFor reports whether text converts for the kind (the same conversion
// functions the statement of C01 names).
func validFor(kind int, text string) bool {
	switch {
	case isStringKind(kind):
		return true
	case isIntKind(kind):
		_, err := strconv.Atoi(text)
		return err == nil
	default:
		_, err := strconv.ParseFloat(text, 64)
		return err == nil
	}
}

func (s *scalar) observe(key string) {
	switch {
	case isStringKind(s.kind):
		vObserve(key, *s.ps)
	case isIntKind(s.kind):
		vObserve(key, *s.pi)
	default:
		vObserve(key, *s.pf)
	}
}

func setMode(opt *GetOpt, mode int) {
	switch mode {
	case 1:
		opt.SetMode(Bundling)
	case 2:
		opt.SetMode(SingleDash)
	}
}

func setUnknown(opt *GetOpt, um int) {
	switch um {
	case 0:
		opt.SetUnknownMode(Fail)
	case 1:
		opt.SetUnknownMode(Warn)
	case 2:
		opt.SetUnknownMode(Pass)
	}
}

// eqStrs compares two string slices element-wise without forking.
func eqStrs(a, b []string) bool {
	if len(a) != len(b) {
		return false
	}
	ok := true
	for i := range a {
		ok = vAnd(ok, a[i] == b[i])
	}
	return ok
}

func eqInts(a, b []int) bool {
	if len(a) != len(b) {
		return false
	}
	ok := true
	for i := range a {
		ok = vAnd(ok, a[i] == b[i])
	}
	return ok
}

// endsWith reports whether s ends with the given tail.
func endsWith(s []string, tail ...string) bool {
	if len(s) < len(tail) {
		return false
	}
	return eqStrs(s[len(s)-len(tail):], tail)
}

func cat(parts ...[]string) []string {
	out := []string{}
	for _, p := range parts {
		out = append(out, p...)
	}
	return out
}

// positional makes a symbolic token that is a plain positional argument:
// it does not start with '-' and is not one of the given command names.
func positional(name string, commands ...string) string {
	p := vString(name)
	vAssume(!strings.HasPrefix(p, "-"))
	for _, c := range commands {
		vAssume(p != c)
	}
	return p
}

// isOptionLooking: the token starts with '-' (how the statements of C01/C02
// describe a token that "looks like an option").
func isOptionLooking(s string) bool { return strings.HasPrefix(s, "-") }

//go:build verif

package getoptions

// C09: require-order stops at the first non-option and hands the rest over verbatim.

import (
	"context"
	"strings"
)

func c09define(mode, um int, ro bool) (*GetOpt, *bool, *string, *string, *[]string, *string) {
	opt := New()
	setMode(opt, mode)
	setUnknown(opt, um)
	if ro {
		opt.SetRequireOrder()
	}
	flag := opt.Bool("flag", false)
	opt.Bool("v", false)
	str := opt.String("str", "d")
	sopt := opt.StringOptional("sopt", "dd")
	list := opt.StringSlice("list", 1, 2)
	ran := new(string)
	opt.SetCommandFn(func(c context.Context, o *GetOpt, a []string) error { *ran += "root;"; return nil })
	cmd := opt.NewCommand("cmd", "")
	cmd.SetCommandFn(func(c context.Context, o *GetOpt, a []string) error { *ran += "cmd;"; return nil })
	return opt, flag, str, sopt, list, ran
}

func VerifC09_Stop() {
	vNativeReset()
	mode := vInt("mode", 0, 2)
	um := vInt("um", 0, 2)
	pre := vInt("pre", 0, 5)
	stopKind := vInt("stop", 0, 3)
	t1, t2 := vString("t1"), vString("t2")
	x := positional("x")
	y := positional("y")

	var preArgs []string
	switch pre {
	case 0:
	case 1:
		preArgs = []string{"--flag"}
	case 2:
		preArgs = []string{"--str", x}
	case 3:
		vAssume(x != "")
		preArgs = []string{"--sopt=" + x} // a bare optional-value option would legitimately take a positional stop token
	case 4:
		preArgs = []string{"--list", x, y} // max reached
	case 5:
		vAssume(x != "")
		preArgs = []string{"--flag", "--str=" + x}
	}
	var stop string
	switch stopKind {
	case 0:
		stop = positional("p", "cmd")
	case 1:
		u := vString("u")
		vAssume(u != "")
		vAssume(!strings.Contains(u, "="))
		vAssume(!strings.HasPrefix("flag", u))
		vAssume(!strings.HasPrefix("v", u))
		vAssume(!strings.HasPrefix("str", u))
		vAssume(!strings.HasPrefix("sopt", u))
		vAssume(!strings.HasPrefix("list", u))
		stop = "--" + u
	case 2:
		stop = "-"
	case 3:
		// Bundling: a bundle whose first letter is known and whose second is not
		vAssume(mode == 1)
		stop = "-vy"
	}

	// run A: require-order, full command line
	optA, flagA, strA, soptA, listA, _ := c09define(mode, um, true)
	// run B: no require-order, only what stands before the stop point
	optB, flagB, strB, soptB, listB, _ := c09define(mode, um, false)
	vPhase("run")
	tail := []string{stop, t1, t2}
	if vThorough() {
		tail = append(tail, vString("t3")) // a third unconstrained tail token
	}
	remA, errA := optA.Parse(cat(preArgs, tail))
	remB, errB := optB.Parse(preArgs)
	vObserve("errA", errA)
	vObserve("remA", remA)
	vAssert("no-error", errA == nil)
	vAssert("reference-no-error", errB == nil)
	vAssert("reference-remaining-empty", len(remB) == 0)
	vAssert("rest-verbatim", eqStrs(remA, tail))
	vAssert("tail-not-interpreted/v", stopKind == 3 || !optA.Called("v"))
	// everything before the stop point is parsed exactly as without require-order
	vAssert("same/flag", *flagA == *flagB)
	vAssert("same/str", *strA == *strB)
	vAssert("same/sopt", *soptA == *soptB)
	vAssert("same/list", eqStrs(*listA, *listB))
	vAssert("same/called-flag", optA.Called("flag") == optB.Called("flag"))
	vAssert("same/called-str", optA.Called("str") == optB.Called("str"))
	vAssert("same/called-sopt", optA.Called("sopt") == optB.Called("sopt"))
	vAssert("same/called-list", optA.Called("list") == optB.Called("list"))
	// and they hold what the construction says
	vAssert("pre/flag", *flagA == (pre == 1 || pre == 5))
	if pre == 2 || pre == 5 {
		vAssert("pre/str", *strA == x)
	} else {
		vAssert("pre/str", *strA == "d")
	}
	vReach("stopped")
}

// A command-name token in option position still descends; the stop then
// happens inside the command (require-order is inherited).
func VerifC09_Command() {
	vNativeReset()
	mode := vInt("mode", 0, 2)
	um := vInt("um", 0, 2)
	t1 := vString("t1")
	p := positional("p", "cmd")
	opt, flag, _, _, _, ran := c09define(mode, um, true)
	vPhase("run")
	rem, err := opt.Parse([]string{"--flag", "cmd", p, t1})
	vObserve("err", err)
	vObserve("rem", rem)
	vAssert("no-error", err == nil)
	vAssert("flag-before-command", *flag)
	vAssert("rest-verbatim", eqStrs(rem, []string{p, t1}))
	if err == nil {
		derr := opt.Dispatch(context.Background(), rem)
		vAssert("dispatch-no-error", derr == nil)
		vAssert("command-selected", *ran == "cmd;")
	}
	vReach("descended")
}

// For ANY tokens in front of a plain positional: with require-order the
// remaining list is a verbatim suffix of the command line (the tokens from the
// stop point on; a terminator met before it is dropped), and the option state is
// exactly that of parsing the tokens before the stop point without
// require-order - which consumes all of them.
func VerifC09_RawBefore() {
	vNativeReset()
	mode := vInt("mode", 0, 2)
	um := vInt("um", 0, 2)
	vBound("runes", 2)
	vBound("digits", 12) // numeral boundaries are C01's subject
	front := []string{vString("t0")}
	if vThorough() {
		front = append(front, vString("t0b")) // two unconstrained tokens in front
	}
	// the tail would be interpreted if the parser went on (VerifC09_Stop has unconstrained tails)
	args := cat(front, []string{"STOP", "--b", "c", "-x"})
	a, b := relDefine(mode, um, true), relDefine(mode, um, false)
	vPhase("run")
	remA, errA := a.opt.Parse(args)
	vObserve("errA", errA != nil)
	vObserve("remA", remA)
	if errA != nil {
		vAssert("failed-parse-nil-remaining", remA == nil)
		vReach("fails")
		return
	}
	k := len(args) - len(remA)
	if k < 0 || k > len(front) {
		// an option in front took STOP as its value: the stop point is further on
		vReach("positional-consumed")
		return
	}
	if mode == 1 && len(remA) > 0 && strings.HasPrefix(remA[0], "-") && !strings.HasPrefix(remA[0], "--") {
		// Bundling: a bundle of known and unknown letters is the stop token and
		// has been interpreted up to the unknown letter (C07's rewriting)
		vReach("bundle-is-the-stop")
		return
	}
	vAssert("rest-verbatim", eqStrs(remA, args[k:]))
	// the tokens before the stop point, parsed without require-order
	remB, errB := b.opt.Parse(args[:k])
	vObserve("remB", remB)
	vAssert("prefix/no-error", errB == nil)
	vAssert("prefix/wholly-consumed", len(remB) == 0)
	relSame(a, b)
	vReach("compared")
}

// Require-order set on a command only (the root does not have it), the help
// command declared afterwards as documented: the command still stops at its
// first non-option, the root still does not.
func VerifC09_CommandOnly() {
	vNativeReset()
	mode := vInt("mode", 0, 2)
	um := vInt("um", 0, 2)
	helpCmd := vBool("helpcmd")
	t1 := vString("t1")
	p := positional("p", "wrap", "help")
	stop := []string{p, "--typo", "-"}[vInt("stop", 0, 2)]
	opt := New()
	setMode(opt, mode)
	setUnknown(opt, um)
	flag := opt.Bool("flag", false)
	wrap := opt.NewCommand("wrap", "")
	wrap.SetRequireOrder()
	after := wrap.Bool("after", false)
	if helpCmd {
		opt.HelpCommand("help", opt.Alias("?"))
	}
	vPhase("run")
	rem, err := opt.Parse([]string{"wrap", "--flag", stop, "--after", "--", t1})
	vObserve("err", err)
	vObserve("rem", rem)
	vAssert("command-only/no-error", err == nil)
	vAssert("command-only/rest-verbatim", eqStrs(rem, []string{stop, "--after", "--", t1}))
	vAssert("command-only/before-stop", *flag)
	vAssert("command-only/not-after-stop", !*after && !opt.Called("after"))
	// the root itself keeps interpreting options behind a positional
	opt2 := New()
	setMode(opt2, mode)
	flag2 := opt2.Bool("flag", false)
	w2 := opt2.NewCommand("wrap", "")
	w2.SetRequireOrder()
	if helpCmd {
		opt2.HelpCommand("help", opt2.Alias("?"))
	}
	rem2, err2 := opt2.Parse([]string{p, "--flag"})
	vAssert("command-only/root-no-error", err2 == nil)
	vAssert("command-only/root-goes-on", *flag2 && eqStrs(rem2, []string{p}))
	vReach("parsed")
}

// Require-order set on the program before its commands exist is inherited by
// every command, also by a wrapper that drops the inherited options and then
// declares one of its own.
func VerifC09_WrapperInherits() {
	vNativeReset()
	mode := vInt("mode", 0, 2)
	um := vInt("um", 0, 2)
	t1 := vString("t1")
	p := positional("p", "wrap")
	v := positional("v", "wrap")
	opt := New()
	setMode(opt, mode)
	setUnknown(opt, um)
	opt.SetRequireOrder()
	profile := opt.String("profile", "d")
	wrap := opt.NewCommand("wrap", "")
	wrap.UnsetOptions()
	dry := wrap.Bool("dry", false)
	vPhase("run")
	rem, err := opt.Parse([]string{"--profile", v, "wrap", p, "--dry", t1})
	vObserve("err", err)
	vObserve("rem", rem)
	vAssert("wrapper/no-error", err == nil)
	vAssert("wrapper/rest-verbatim", eqStrs(rem, []string{p, "--dry", t1}))
	vAssert("wrapper/before-stop", *profile == v)
	vAssert("wrapper/not-after-stop", !*dry && !wrap.Called("dry"))
	vReach("parsed")
}

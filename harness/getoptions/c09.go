//go:build verif

package getoptions

// C09: require-order stops at the first non-option and hands the rest over verbatim.

import (
	"context"
	"strings"
)

func c09define(mode, um int, ro bool) (*GetOpt, *bool, *string, *string, *[]string, *string) {
	opt := New()
	setMode(opt, mode)
	setUnknown(opt, um)
	if ro {
		opt.SetRequireOrder()
	}
	flag := opt.Bool("flag", false)
	opt.Bool("v", false)
	str := opt.String("str", "d")
	sopt := opt.StringOptional("sopt", "dd")
	list := opt.StringSlice("list", 1, 2)
	ran := new(string)
	opt.SetCommandFn(func(c context.Context, o *GetOpt, a []string) error { *ran += "root;"; return nil })
	cmd := opt.NewCommand("cmd", "")
	cmd.SetCommandFn(func(c context.Context, o *GetOpt, a []string) error { *ran += "cmd;"; return nil })
	return opt, flag, str, sopt, list, ran
}

func VerifC09_Stop() {
	vNativeReset()
	mode := vInt("mode", 0, 2)
	um := vInt("um", 0, 2)
	pre := vInt("pre", 0, 5)
	stopKind := vInt("stop", 0, 3)
	t1, t2 := vString("t1"), vString("t2")
	x := positional("x")
	y := positional("y")

	var preArgs []string
	switch pre {
	case 0:
	case 1:
		preArgs = []string{"--flag"}
	case 2:
		preArgs = []string{"--str", x}
	case 3:
		vAssume(x != "")
		preArgs = []string{"--sopt=" + x} // a bare optional-value option would legitimately take a positional stop token
	case 4:
		preArgs = []string{"--list", x, y} // max reached
	case 5:
		vAssume(x != "")
		preArgs = []string{"--flag", "--str=" + x}
	}
	var stop string
	switch stopKind {
	case 0:
		stop = positional("p", "cmd")
	case 1:
		u := vString("u")
		vAssume(u != "")
		vAssume(!strings.Contains(u, "="))
		vAssume(!strings.HasPrefix("flag", u))
		vAssume(!strings.HasPrefix("v", u))
		vAssume(!strings.HasPrefix("str", u))
		vAssume(!strings.HasPrefix("sopt", u))
		vAssume(!strings.HasPrefix("list", u))
		stop = "--" + u
	case 2:
		stop = "-"
	case 3:
		// Bundling: a bundle whose first letter is known and whose second is not
		vAssume(mode == 1)
		stop = "-vy"
	}

	// run A: require-order, full command line
	optA, flagA, strA, soptA, listA, _ := c09define(mode, um, true)
	// run B: no require-order, only what stands before the stop point
	optB, flagB, strB, soptB, listB, _ := c09define(mode, um, false)
	vPhase("run")
	tail := []string{stop, t1, t2}
	if vThorough() {
		tail = append(tail, vString("t3")) // a third unconstrained tail token
	}
	remA, errA := optA.Parse(cat(preArgs, tail))
	remB, errB := optB.Parse(preArgs)
	vObserve("errA", errA)
	vObserve("remA", remA)
	vAssert("no-error", errA == nil)
	vAssert("reference-no-error", errB == nil)
	vAssert("reference-remaining-empty", len(remB) == 0)
	vAssert("rest-verbatim", eqStrs(remA, tail))
	vAssert("tail-not-interpreted/v", stopKind == 3 || !optA.Called("v"))
	// everything before the stop point is parsed exactly as without require-order
	vAssert("same/flag", *flagA == *flagB)
	vAssert("same/str", *strA == *strB)
	vAssert("same/sopt", *soptA == *soptB)
	vAssert("same/list", eqStrs(*listA, *listB))
	vAssert("same/called-flag", optA.Called("flag") == optB.Called("flag"))
	vAssert("same/called-str", optA.Called("str") == optB.Called("str"))
	vAssert("same/called-sopt", optA.Called("sopt") == optB.Called("sopt"))
	vAssert("same/called-list", optA.Called("list") == optB.Called("list"))
	// and they hold what the construction says
	vAssert("pre/flag", *flagA == (pre == 1 || pre == 5))
	if pre == 2 || pre == 5 {
		vAssert("pre/str", *strA == x)
	} else {
		vAssert("pre/str", *strA == "d")
	}
	vReach("stopped")
}

// A command-name token in option position still descends; the stop then
// happens inside the command (require-order is inherited).
func VerifC09_Command() {
	vNativeReset()
	mode := vInt("mode", 0, 2)
	um := vInt("um", 0, 2)
	t1 := vString("t1")
	p := positional("p", "cmd")
	opt, flag, _, _, _, ran := c09define(mode, um, true)
	vPhase("run")
	rem, err := opt.Parse([]string{"--flag", "cmd", p, t1})
	vObserve("err", err)
	vObserve("rem", rem)
	vAssert("no-error", err == nil)
	vAssert("flag-before-command", *flag)
	vAssert("rest-verbatim", eqStrs(rem, []string{p, t1}))
	if err == nil {
		derr := opt.Dispatch(context.Background(), rem)
		vAssert("dispatch-no-error", derr == nil)
		vAssert("command-selected", *ran == "cmd;")
	}
	vReach("descended")
}

// Relational, for ANY token in front: with require-order the command line
// [t0, p, t1, t2] (p a plain positional) leaves the same option state as
// [t0, p] without require-order, and its remaining list is that of the short
// line plus the two tail tokens, verbatim - unless p was consumed as a value.
func VerifC09_RawBefore() {
	vNativeReset()
	mode := vInt("mode", 0, 2)
	um := 2 // quick tier: pass-through; all three unknown modes in the thorough tier
	if vThorough() {
		um = vInt("um", 0, 2)
	}
	vBound("runes", 2)
	t0 := vString("t0")
	t1, t2 := vString("t1"), vString("t2")
	p := positional("p", "c")
	a, b := relDefine(mode, um, true), relDefine(mode, um, false)
	vPhase("run")
	remB, errB := b.opt.Parse([]string{t0, p})
	vObserve("errB", errB != nil)
	vObserve("remB", remB)
	if errB != nil {
		vReach("reference-fails")
		return
	}
	if len(remB) == 0 || remB[len(remB)-1] != p {
		vReach("stop-token-consumed")
		return
	}
	remA, errA := a.opt.Parse([]string{t0, p, t1, t2})
	vObserve("remA", remA)
	vAssert("no-error", errA == nil)
	vAssert("rest-verbatim", eqStrs(remA, cat(remB, []string{t1, t2})))
	relSame(a, b)
	vReach("compared")
}

//go:build verif

package getoptions

// C17: completion offers exactly the applicable commands, options and values.

import (
	"context"
	"sort"
	"strings"
)

type c17prog struct {
	opt *GetOpt
	ran *int
}

func c17define() c17prog {
	ran := new(int)
	fn := func(c context.Context, o *GetOpt, a []string) error { *ran++; return nil }
	opt := New()
	opt.Bool("flag", false, opt.Alias("f"))
	opt.String("str", "", opt.Alias("string"))
	opt.String("choice", "", opt.ValidValues("apple", "apricot", "banana"))
	opt.String("cho", "", opt.SuggestedValues("alpha", "avocado")) // its name is a strict prefix of "choice"
	opt.Int("level", 0, opt.SuggestedValues("1", "10", "2"))
	opt.Int("level2", 0)                                                                      // sorts in front of "level=": '2' is smaller than '='
	opt.String("stage", "", opt.ValidValues("dev", "staging"), opt.ValidValues("qa", "prod")) // two modifiers
	opt.String("define", "", opt.SuggestedValues("os=linux", "os=darwin", "arch=arm"))
	opt.SetCommandFn(fn)
	cmd := opt.NewCommand("cmd", "a command").ArgCompletions("alpha", "alps", "beta")
	cmd.Bool("cmdopt", false)
	cmd.SetCommandFn(fn)
	sub := cmd.NewCommand("sub", "a sub command")
	sub.SetCommandFn(fn)
	// a dynamic completion function whose candidates need not start with the typed word
	sub.ArgCompletionsFns(func(target string, prev []string, partial string) []string {
		return []string{"README.adoc", "zebra"}
	})
	wrap := opt.NewCommand("wrap", "a wrapper")
	wrap.UnsetOptions().SetUnknownMode(Pass)
	wrap.Bool("wopt", false, opt.Alias("wo")) // an option of the wrapper itself
	wrap.SetCommandFn(fn)
	wrap.NewCommand("wsub", "below the wrapper").SetCommandFn(fn)
	wrap.Bool("wlate", false) // declared when the sub command already exists
	opt.NewCommand("cmdother", "another").SetCommandFn(fn)
	opt.HelpCommand("help", opt.Alias("?"))
	return c17prog{opt, ran}
}

// names available at each level reached by the earlier words
var c17optsRoot = []string{"flag", "f", "str", "string", "choice", "cho", "level", "level2", "stage", "define", "help", "?"}
var c17optsCmd = []string{"flag", "f", "str", "string", "choice", "cho", "level", "level2", "stage", "define", "help", "?", "cmdopt"}
var c17cmdsRoot = []string{"cmd", "wrap", "cmdother", "help"}
var c17cmdsCmd = []string{"sub", "help", "alpha", "alps", "beta"}
var c17cmdsSub = []string{"help"}
var c17optsWrap = []string{"wopt", "wo", "wlate"}
var c17cmdsWrap = []string{"wsub", "help"}
var c17dynamic = []string{"README.adoc", "zebra"}

func VerifC17_Completion() {
	vNativeReset()
	zsh := vBool("zsh")
	shape := vInt("earlier", 0, 8)
	w := vString("w")
	vAssume(vMatches(w, `[^\t\n\f\r ]*`))
	vAssume(!strings.Contains(w, "="))
	vAssume(!strings.Contains(w, "\x00")) // cannot be put into a process environment
	vAssume(w != "-")                     // the lone dash has a reading of its own
	earlier := ""
	opts, cmds := c17optsRoot, c17cmdsRoot
	var prior []string
	switch shape {
	case 1:
		earlier, prior = "--flag ", []string{"--flag"}
	case 2:
		earlier, prior = "--str val ", []string{"--str", "val"}
	case 3:
		earlier, prior = "cmd ", []string{"cmd"}
		opts, cmds = c17optsCmd, c17cmdsCmd
	case 4:
		earlier, prior = "--flag cmd --cmdopt ", []string{"--flag", "cmd", "--cmdopt"}
		opts, cmds = c17optsCmd, c17cmdsCmd
	case 5:
		earlier, prior = "cmd sub ", []string{"cmd", "sub"}
		opts, cmds = c17optsCmd, c17cmdsSub
	case 8:
		// the help command below the root offers the topics of that level only
		earlier, prior = "cmd help ", []string{"cmd", "help"}
		opts, cmds = nil, []string{"sub"}
		vAssume(!strings.HasPrefix(w, "-"))
	case 6:
		// a wrapper (UnsetOptions) offers its own options only
		earlier, prior = "wrap ", []string{"wrap"}
		opts, cmds = c17optsWrap, c17cmdsWrap
	case 7:
		// and hands them down to its own sub command
		earlier, prior = "wrap wsub ", []string{"wrap", "wsub"}
		opts, cmds = c17optsWrap, c17cmdsSub
	}
	vSetenv("COMP_LINE", "prog "+earlier+w)
	if zsh {
		vSetenv("ZSHELL", "true")
	}
	exited := 0
	exitFn = func(code int) { exited++ }
	completionWriter = vWriter("completion")
	p := c17define()
	vPhase("run")
	remaining, err := p.opt.Parse([]string{"prog", w, ""})
	out := vWritten("completion")
	vObserve("out", out)
	vAssert("exit-path", exited == 1)
	vAssert("returns-nothing", remaining == nil && err == nil)
	vAssert("no-command-ran", *p.ran == 0)
	vAssert("ends-with-newline", strings.HasSuffix(out, "\n"))
	lines := strings.Split(strings.TrimSuffix(out, "\n"), "\n")
	if len(lines) == 1 && lines[0] == "" {
		lines = nil
	}
	vAssert("sorted", sort.StringsAreSorted(lines))
	// the names the lines stand for
	offered := map[string]bool{}
	for _, l := range lines {
		l = strings.TrimSuffix(l, " ") // bash: a single candidate gets a trailing blank
		if strings.HasPrefix(w, "-") {
			vAssert("option-line-shape", strings.HasPrefix(l, "--"))
			l = strings.SplitN(strings.TrimPrefix(l, "--"), "=", 2)[0]
		}
		offered[l] = true
	}
	var expected []string
	if strings.HasPrefix(w, "-") {
		partial := strings.TrimPrefix(strings.TrimPrefix(w, "-"), "-")
		for _, k := range opts {
			if strings.HasPrefix(k, partial) {
				expected = append(expected, k)
			}
		}
	} else {
		for _, k := range cmds {
			if strings.HasPrefix(k, w) {
				expected = append(expected, k)
			}
		}
		if shape == 5 {
			// plus whatever the dynamic completion function returns
			expected = append(expected, c17dynamic...)
		}
	}
	for _, k := range expected {
		vAssert("offers-every-applicable-name", offered[k])
	}
	vAssert("offers-nothing-else", len(offered) == len(expected))
	// every offered option or command is accepted by the parser at that position
	for _, k := range expected {
		if k == "README.adoc" || k == "zebra" {
			continue // free-form arguments, not names the parser knows
		}
		q := c17define()
		tok := k
		if strings.HasPrefix(w, "-") {
			tok = "--" + k
			if k == "str" || k == "string" || k == "choice" || k == "cho" || k == "level" || k == "level2" || k == "stage" || k == "define" {
				tok += "=1"
				if k == "choice" {
					tok = "--choice=apple"
				}
				if k == "stage" {
					tok = "--stage=qa"
				}
			}
		}
		_, perr := q.opt.Parse(cat(prior, []string{tok}))
		vAssert("offered-name-accepted", perr == nil)
	}
	vReach("completed")
}

// After `--name=` the candidates are that option's suggested / valid values with the typed prefix.
func VerifC17_Values() {
	vNativeReset()
	zsh := vBool("zsh")
	which := vInt("which", 0, 3)
	pre := vString("pre")
	vAssume(vMatches(pre, `[^\t\n\f\r =\x00]*`))
	name := []string{"choice", "level", "define", "stage"}[which]
	values := [][]string{{"apple", "apricot", "banana"}, {"1", "10", "2"}, {"os=linux", "os=darwin", "arch=arm"}, {"dev", "staging", "qa", "prod"}}[which]
	vSetenv("COMP_LINE", "prog --"+name+"="+pre)
	if zsh {
		vSetenv("ZSHELL", "true")
	}
	exited := 0
	exitFn = func(code int) { exited++ }
	completionWriter = vWriter("completion")
	p := c17define()
	vPhase("run")
	_, _ = p.opt.Parse([]string{"prog", "--" + name + "=" + pre, ""})
	out := vWritten("completion")
	vObserve("out", out)
	vAssert("exit-path", exited == 1)
	vAssert("no-command-ran", *p.ran == 0)
	lines := strings.Split(strings.TrimSuffix(out, "\n"), "\n")
	if len(lines) == 1 && lines[0] == "" {
		lines = nil
	}
	var expected []string
	for _, v := range values {
		if strings.HasPrefix(v, pre) {
			if zsh {
				expected = append(expected, "--"+name+"="+v)
			} else {
				expected = append(expected, v)
			}
		}
	}
	sort.Strings(expected)
	vAssert("sorted", sort.StringsAreSorted(lines))
	vAssert("exactly-the-matching-values", eqStrs(lines, expected))
	vReach("values")
}

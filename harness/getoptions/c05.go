//go:build verif

package getoptions

// C05: abbreviations: unique prefix = full name, exact name wins, ambiguity errors.

import "strings"

func VerifC05_Abbrev() {
	vNativeReset()
	mode := vInt("mode", 0, 2)
	spelling := vInt("spelling", 0, 2) // 0: --p   1: -p (Normal)   2: -p one letter (Bundling)
	alias := vBool("alias")            // n3 is an alias of option 1 instead of an option of its own
	incmd := vBool("incmd")            // used after a command token (options inherited from the root)
	ro := vBool("ro")                  // require-order does not change how an option text is resolved
	n1, n2, n3 := vString("n1"), vString("n2"), vString("n3")
	p := vString("p")
	v := positional("v", "cmd")
	for _, n := range []string{n1, n2, n3, p} {
		vAssume(vMatches(n, `[A-Za-z0-9]+`))
	}
	vAssume(n1 != n2)
	vAssume(n1 != n3)
	vAssume(n2 != n3)
	switch spelling {
	case 1:
		vAssume(mode == 0)
	case 2:
		vAssume(mode == 1)
		vAssume(len(p) == 1)
	}

	opt := New()
	setMode(opt, mode)
	if ro {
		opt.SetRequireOrder()
	}
	var o1, o2, o3 *string
	if alias {
		o1 = opt.String(n1, "d1", opt.Alias(n3))
	} else {
		o1 = opt.String(n1, "d1")
		o3 = opt.String(n3, "d3")
	}
	o2 = opt.String(n2, "d2")
	opt.NewCommand("cmd", "")

	tok := "--" + p
	if spelling != 0 {
		tok = "-" + p
	}
	args := []string{tok, v}
	if incmd {
		args = []string{"cmd", tok, v}
	}
	vPhase("run")
	remaining, err := opt.Parse(args)
	vObserve("failed", err != nil) // the text lists the candidates in sorted order, which the engine leaves unspecified
	vObserve("remaining", remaining)
	vObserve("o1", *o1)
	vObserve("o2", *o2)

	// oracle, from the same prefix predicate
	names := []string{n1, n2, n3}
	exact := -1
	var matches []int
	for i, n := range names {
		if p == n {
			exact = i
		}
		if strings.HasPrefix(n, p) {
			matches = append(matches, i)
		}
	}
	target := -1
	calledAs := ""
	switch {
	case exact >= 0:
		target, calledAs = exact, p
		vReach("exact")
	case len(matches) == 1:
		target, calledAs = matches[0], names[matches[0]]
		vReach("unique-prefix")
	case len(matches) >= 2:
		vAssert("ambiguous/error", err != nil)
		if err != nil {
			msg := err.Error()
			for _, i := range matches {
				vAssert("ambiguous/lists-candidate", strings.Contains(msg, names[i]))
			}
		}
		vAssert("ambiguous/remaining-nil", remaining == nil)
		vAssert("ambiguous/o1-unchanged", *o1 == "d1")
		vAssert("ambiguous/o2-unchanged", *o2 == "d2")
		vAssert("ambiguous/not-called-1", !opt.Called(n1))
		vAssert("ambiguous/not-called-2", !opt.Called(n2))
		vReach("ambiguous")
		return
	default:
		if ro {
			// an unknown option is where require-order stops: handed over, not an error
			vAssert("unknown/handed-over", err == nil && len(remaining) == 2)
			vAssert("unknown/o1-unchanged", *o1 == "d1")
			vAssert("unknown/o2-unchanged", *o2 == "d2")
			vReach("unknown")
			return
		}
		vAssert("unknown/error", err != nil) // default unknown mode: Fail
		vAssert("unknown/o1-unchanged", *o1 == "d1")
		vAssert("unknown/o2-unchanged", *o2 == "d2")
		vReach("unknown")
		return
	}
	vAssert("selected/no-error", err == nil)
	vAssert("selected/remaining-empty", len(remaining) == 0)
	// which option record: with alias, names 0 and 2 are the same option
	hit1 := target == 0 || (alias && target == 2)
	hit2 := target == 1
	hit3 := !alias && target == 2
	if hit1 {
		vAssert("selected/value", *o1 == v)
		vAssert("selected/others-untouched", *o2 == "d2")
	} else {
		vAssert("selected/o1-untouched", *o1 == "d1")
	}
	if hit2 {
		vAssert("selected/value", *o2 == v)
	}
	if hit3 {
		vAssert("selected/value", *o3 == v)
		vAssert("selected/others-untouched", *o2 == "d2")
	}
	vAssert("selected/called", opt.Called(names[target]))
	vAssert("selected/called-as", opt.CalledAs(names[target]) == calledAs)
}

// c05resolve is the oracle: index of the selected name, or -1 with the reason.
func c05resolve(names []string, p string) (target int, ambiguous bool) {
	var matches []int
	for i, n := range names {
		if p == n {
			return i, false
		}
		if strings.HasPrefix(n, p) {
			matches = append(matches, i)
		}
	}
	switch len(matches) {
	case 1:
		return matches[0], false
	case 0:
		return -1, false
	}
	return -1, true
}

// The same text used before and after a command word is resolved against the
// names of the level it is given at (the command adds a name of its own).
func VerifC05_Levels() {
	vNativeReset()
	n1, n2 := vString("n1"), vString("n2")
	p := vString("p")
	v := positional("v", "cmd")
	w := positional("w", "cmd")
	for _, n := range []string{n1, n2, p} {
		vAssume(vMatches(n, `[A-Za-z0-9]+`))
	}
	vAssume(n1 != n2)
	opt := New()
	o1 := opt.String(n1, "d1")
	cmd := opt.NewCommand("cmd", "")
	o2 := cmd.String(n2, "d2")
	vPhase("run")
	remaining, err := opt.Parse([]string{"--" + p, v, "cmd", "--" + p, w})
	vObserve("failed", err != nil)
	vObserve("remaining", remaining)
	vObserve("o1", *o1)
	vObserve("o2", *o2)
	t1, amb1 := c05resolve([]string{n1}, p)
	t2, amb2 := c05resolve([]string{n1, n2}, p)
	if amb1 || t1 < 0 || amb2 || t2 < 0 {
		// unknown at the root (Fail mode) or ambiguous somewhere: an error, nothing half-done is demanded
		vAssert("levels/error", err != nil)
		vReach("levels-error")
		return
	}
	vAssert("levels/no-error", err == nil)
	vAssert("levels/remaining-empty", len(remaining) == 0)
	if t2 == 0 {
		vAssert("levels/root-option-last-value", *o1 == w)
		vAssert("levels/command-option-untouched", *o2 == "d2")
	} else {
		vAssert("levels/root-option-first-value", *o1 == v)
		vAssert("levels/command-option-value", *o2 == w)
	}
	vReach("levels-resolved")
}

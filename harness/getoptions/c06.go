//go:build verif

package getoptions

// C06: aliases interchangeable, Called/CalledAs exact, untouched options keep defaults.

import (
	"math"
	"strconv"
)

type c06prog struct {
	opt *GetOpt
	// option under test (one of these, by kind), declared through the *Var form
	tb bool
	ti int
	ts string
	tl []string
	tm map[string]string
	// siblings of all kinds, with their declared defaults
	sb   *bool
	dsb  bool
	si   *int
	dsi  int
	ss   *string
	dss  string
	sf   *float64
	dsf  float64
	sso  *string
	sio  *int
	sfo  *float64
	sinc *int
	sl   *[]string
	sil  *[]int
	sfl  *[]float64
	sm   map[string]string
}

const (
	c06bool = iota
	c06inc
	c06string
	c06int
	c06list
	c06map
)

func c06define(mode, kind int) *c06prog {
	p := &c06prog{opt: New()}
	o := p.opt
	setMode(o, mode)
	al := o.Alias("x", "alt", "é")
	switch kind {
	case c06bool:
		o.BoolVar(&p.tb, "name", false, al)
	case c06inc:
		o.IncrementVar(&p.ti, "name", 3, al)
	case c06string:
		o.StringVar(&p.ts, "name", "dflt", al)
	case c06int:
		o.IntVar(&p.ti, "name", 3, al)
	case c06list:
		o.StringSliceVar(&p.tl, "name", 1, 1, al)
	case c06map:
		o.StringMapVar(&p.tm, "name", 1, 1, al)
	}
	p.dsb = vBool("dsb")
	p.dsi = vInt("dsi", math.MinInt64, math.MaxInt64)
	p.dss = vString("dss")
	p.dsf = vFloat("dsf")
	p.sb = o.Bool("sbool", p.dsb)
	p.si = o.Int("sint", p.dsi)
	p.ss = o.String("sstring", p.dss)
	p.sf = o.Float64("sfloat", p.dsf)
	p.sso = o.StringOptional("sstringo", p.dss)
	p.sio = o.IntOptional("sinto", p.dsi)
	p.sfo = o.Float64Optional("sfloato", p.dsf)
	p.sinc = o.Increment("sinc", p.dsi)
	p.sl = o.StringSlice("slist", 1, 2)
	p.sil = o.IntSlice("silist", 1, 2)
	p.sfl = o.Float64Slice("sflist", 1, 2)
	p.sm = o.StringMap("smap", 1, 2)
	o.Bool("forced", false, o.SetCalled(true))
	return p
}

var c06siblings = []string{"sbool", "sint", "sstring", "sfloat", "sstringo", "sinto", "sfloato", "sinc", "slist", "silist", "sflist", "smap"}

func (p *c06prog) assertSiblingsUntouched() {
	vAssert("sibling/bool", *p.sb == p.dsb)
	vAssert("sibling/int", *p.si == p.dsi)
	vAssert("sibling/string", *p.ss == p.dss)
	vAssert("sibling/float", math.Float64bits(*p.sf) == math.Float64bits(p.dsf))
	vAssert("sibling/string-optional", *p.sso == p.dss)
	vAssert("sibling/int-optional", *p.sio == p.dsi)
	vAssert("sibling/float-optional", math.Float64bits(*p.sfo) == math.Float64bits(p.dsf))
	vAssert("sibling/increment", *p.sinc == p.dsi)
	vAssert("sibling/list", len(*p.sl) == 0)
	vAssert("sibling/int-list", len(*p.sil) == 0)
	vAssert("sibling/float-list", len(*p.sfl) == 0)
	vAssert("sibling/map", len(p.sm) == 0)
	for _, n := range c06siblings {
		vAssert("sibling/not-called", !p.opt.Called(n))
		vAssert("sibling/called-as-empty", p.opt.CalledAs(n) == "")
	}
}

func VerifC06_Alias() {
	vNativeReset()
	mode := vInt("mode", 0, 2)
	kind := vInt("kind", 0, 5)
	occ := vInt("occ", 1, 2)
	spell := []int{vInt("spell0", 0, 3), vInt("spell1", 0, 3)}
	attached := vBool("attached")
	var vals []string
	for k := 0; k < occ; k++ {
		switch kind {
		case c06int:
			vals = append(vals, strconv.Itoa(vInt("iv"+strconv.Itoa(k), 0, 1000000)))
		case c06map:
			vals = append(vals, "k"+strconv.Itoa(k)+"="+vString("mv"+strconv.Itoa(k)))
		default:
			w := vString("sv" + strconv.Itoa(k))
			vAssume(w != "")
			vAssume(!isOptionLooking(w))
			vals = append(vals, w)
		}
	}
	names := []string{"name", "x", "alt", "é"}
	build := func(useAlias bool) []string {
		var args []string
		for k := 0; k < occ; k++ {
			nm := "name"
			if useAlias {
				nm = names[spell[k]]
			}
			tok := "--" + nm
			if nm == "x" || nm == "é" {
				tok = "-" + nm // one letter, possibly multibyte: the same reading in all modes
			}
			needsValue := kind != c06bool && kind != c06inc
			switch {
			case !needsValue:
				args = append(args, tok)
			case attached && nm != "x" && nm != "é":
				args = append(args, tok+"="+vals[k])
			default:
				args = append(args, tok, vals[k])
			}
		}
		return args
	}
	a, b := c06define(mode, kind), c06define(mode, kind)
	vPhase("run")
	remA, errA := a.opt.Parse(build(true))
	remB, errB := b.opt.Parse(build(false))
	vObserve("errA", errA)
	vObserve("remA", remA)
	// any alias has exactly the effect of the primary name
	vAssert("alias/no-error", errA == nil)
	vAssert("alias/reference-no-error", errB == nil)
	vAssert("alias/remaining", eqStrs(remA, remB))
	vAssert("alias/bool", a.tb == b.tb)
	vAssert("alias/int", a.ti == b.ti)
	vAssert("alias/string", a.ts == b.ts)
	vAssert("alias/list", eqStrs(a.tl, b.tl))
	if kind == c06map {
		vAssert("alias/map-size", len(a.tm) == len(b.tm))
		for k := 0; k < occ; k++ {
			key := "k" + strconv.Itoa(k)
			vAssert("alias/map-value", a.tm[key] == b.tm[key])
		}
	}
	// Called for the option, whichever of its names is asked
	for _, n := range names {
		vAssert("called/any-name", a.opt.Called(n))
		vAssert("called-as/last-spelling", a.opt.CalledAs(n) == names[spell[occ-1]])
	}
	// pointer / *Var target / Value agree
	switch kind {
	case c06bool:
		vAssert("agree/value", a.opt.Value("name").(bool) == a.tb)
		vAssert("agree/value-by-alias", a.opt.Value("alt").(bool) == a.tb)
		vAssert("effect/bool", a.tb)
	case c06inc:
		vAssert("agree/value", a.opt.Value("x").(int) == a.ti)
		vAssert("effect/increment", a.ti == 3+occ)
	case c06string:
		vAssert("agree/value", a.opt.Value("alt").(string) == a.ts)
		vAssert("effect/string", a.ts == vals[occ-1])
	case c06int:
		vAssert("agree/value", a.opt.Value("name").(int) == a.ti)
	case c06list:
		vAssert("agree/value", eqStrs(a.opt.Value("x").([]string), a.tl))
		vAssert("effect/list", eqStrs(a.tl, vals))
	}
	a.assertSiblingsUntouched()
	vAssert("setcalled/called-without-cli", a.opt.Called("forced"))
	vReach("compared")
}

// Called / CalledAs through the environment variable, for both bool texts.
func VerifC06_EnvCalled() {
	vNativeReset()
	val := vBool("envtrue")
	def := vBool("def")
	txt := []string{"false", "FALSE", "False"}[vInt("spelling", 0, 2)]
	if val {
		txt = []string{"true", "TRUE", "tRuE"}[vInt("spelling", 0, 2)]
	}
	vSetenv("VERIF_C06_ENV", txt)
	opt := New()
	b := opt.Bool("name", def, opt.Alias("x"), opt.GetEnv("VERIF_C06_ENV"))
	vPhase("run")
	_, err := opt.Parse([]string{})
	vAssert("env/no-error", err == nil)
	vAssert("env/value", *b == val)
	vAssert("env/called", opt.Called("name"))
	vAssert("env/called-by-alias-name", opt.Called("x"))
	vAssert("env/called-as", opt.CalledAs("name") == "VERIF_C06_ENV")
	vReach("env")
}

// An alias that a command adds, spelled by a text that is only an
// abbreviation at the root: resolved at the level it is given at.
func VerifC06_AliasAtLevels() {
	vNativeReset()
	val := positional("val", "cmd")
	opt := New()
	verbose := opt.Bool("verbose", false)
	cmd := opt.NewCommand("cmd", "")
	version := cmd.String("version", "dv", cmd.Alias("ver"))
	vPhase("run")
	remaining, err := opt.Parse([]string{"--ver", "cmd", "--ver", val})
	vObserve("err", err)
	vObserve("remaining", remaining)
	vAssert("levels/no-error", err == nil)
	vAssert("levels/root-abbreviation", *verbose)
	vAssert("levels/alias-value", *version == val)
	vAssert("levels/remaining-empty", len(remaining) == 0)
	vAssert("levels/called-as-full-name-at-root", opt.CalledAs("verbose") == "verbose")
	vAssert("levels/alias-called", cmd.Called("ver") && cmd.Called("version"))
	vAssert("levels/alias-called-as", cmd.CalledAs("version") == "ver")
	vReach("levels")
}

// Called / CalledAs / Value / pointer agree on the object that declared the
// option, also when the command finally selected does not inherit it (a
// wrapper created with UnsetOptions, the help command).
func VerifC06_CalledOnDeclaringObject() {
	vNativeReset()
	which := vInt("selected", 0, 2)
	opt := New()
	verbose := opt.Bool("verbose", false, opt.Alias("v"))
	wrap := opt.NewCommand("wrap", "")
	wrap.UnsetOptions().SetUnknownMode(Pass)
	opt.NewCommand("plain", "")
	opt.HelpCommand("help")
	target := []string{"wrap", "plain", "help"}[which]
	vPhase("run")
	_, err := opt.Parse([]string{"-v", target})
	vAssert("declaring/no-error", err == nil)
	vAssert("declaring/pointer", *verbose)
	vAssert("declaring/value", opt.Value("verbose").(bool))
	vAssert("declaring/called", opt.Called("verbose"))
	vAssert("declaring/called-by-alias", opt.Called("v"))
	vAssert("declaring/called-as", opt.CalledAs("verbose") == "v")
	vReach("declaring")
}

// One-letter multibyte aliases that share their first byte (α, β; γ is not
// declared): each alias addresses its own option only, and a letter that is not
// declared touches nothing - in every mode, alone and inside a bundle.
func VerifC06_MultibyteLetters() {
	vNativeReset()
	mode := vInt("mode", 0, 2)
	shape := vInt("shape", 0, 5)
	opt := New()
	setMode(opt, mode)
	opt.SetUnknownMode(Pass)
	alpha := opt.Bool("alpha", false, opt.Alias("α"))
	beta := opt.Bool("beta", false, opt.Alias("β"))
	uml := opt.String("umlaut", "d", opt.Alias("ü"))
	var args, want []string
	wa, wb, wu := false, false, "d"
	switch shape {
	case 0:
		args, wa = []string{"-α"}, true
	case 1:
		args, wb = []string{"-β"}, true
	case 2:
		args, want = []string{"-γ"}, []string{"-γ"}
	case 3:
		args, want = []string{"-ö", "v"}, []string{"-ö", "v"}
	case 4:
		vAssume(mode == 1)
		args, wa, wb = []string{"-βα"}, true, true
	case 5:
		// ANY two-byte letter that is not declared
		u := vString("u")
		vAssume(len(u) == 2)
		vAssume(u[0] >= 0xc2 && u[0] <= 0xdf)
		vAssume(u[1] >= 0x80 && u[1] <= 0xbf)
		vAssume(u != "α" && u != "β" && u != "ü")
		args, want = []string{"-" + u}, []string{"-" + u}
	}
	vPhase("run")
	remaining, err := opt.Parse(args)
	vObserve("err", err)
	vObserve("remaining", remaining)
	vAssert("letters/no-error", err == nil)
	vAssert("letters/remaining", eqStrs(remaining, want))
	vAssert("letters/alpha", *alpha == wa)
	vAssert("letters/beta", *beta == wb)
	vAssert("letters/umlaut", *uml == wu)
	vAssert("letters/alpha-called", opt.Called("alpha") == wa)
	vAssert("letters/beta-called", opt.Called("beta") == wb)
	vAssert("letters/umlaut-called", !opt.Called("umlaut"))
	if wa {
		vAssert("letters/called-as", opt.CalledAs("alpha") == "α")
	}
	vReach("parsed")
}

// An option (with an alias) declared after one command and before the next one
// reaches both commands and their sub commands: given behind the earlier
// command it is Called, CalledAs its spelling, and pointer and Value agree.
func VerifC06_LateOption() {
	vNativeReset()
	mode := vInt("mode", 0, 2)
	um := vInt("um", 0, 2)
	behind := vInt("behind", 0, 2) // the earlier command, its sub command, the later command
	byAlias := vBool("byalias")
	n := vInt("n", 0, 1000000)
	opt := New()
	setMode(opt, mode)
	setUnknown(opt, um)
	early := opt.NewCommand("early", "")
	early.NewCommand("esub", "")
	level := opt.Int("level", 1, opt.Alias("l"))
	opt.NewCommand("later", "")
	lead := [][]string{{"early"}, {"early", "esub"}, {"later"}}[behind]
	tok, spelling := "--level", "level"
	if byAlias {
		tok, spelling = "-l", "l"
	}
	vPhase("run")
	remaining, err := opt.Parse(cat(lead, []string{tok, strconv.Itoa(n), "file"}))
	vObserve("err", err)
	vObserve("remaining", remaining)
	vAssert("late/no-error", err == nil)
	vAssert("late/remaining", eqStrs(remaining, []string{"file"}))
	vAssert("late/pointer", *level == n)
	vAssert("late/called", opt.Called("level"))
	vAssert("late/called-as", opt.CalledAs("level") == spelling)
	v, ok := opt.Value("level").(int)
	vAssert("late/value", ok && v == n)
	vReach("parsed")
}

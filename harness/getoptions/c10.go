//go:build verif

package getoptions

// C10: Dispatch runs exactly the addressed command once, with its options and arguments.

import "context"

type vCtx struct {
	context.Context
	tag string
}

type c10call struct {
	wlate   string
	wt      string
	wtOK    bool
	who     string
	ctxOK   bool
	args    []string
	g       string
	gCalled bool
}

func VerifC10_Dispatch() {
	vNativeReset()
	mode := vInt("mode", 0, 2)
	shape := vInt("shape", 0, 18)
	helpCmd := vBool("helpcmd")
	gv := positional("gv", "a", "b", "w", "a1", "help", "r", "rs", "we")
	av := positional("av", "a", "b", "w", "a1", "help", "r", "rs", "we")
	p := positional("p", "a", "b", "w", "a1", "help", "r", "rs", "we")

	var calls []c10call
	fn := func(who string) CommandFn {
		return func(c context.Context, o *GetOpt, args []string) error {
			vc, ok := c.(vCtx)
			g, _ := o.Value("g").(string)
			wt, _ := o.Value("wt").(string)
			wl, _ := o.Value("wlate").(string)
			calls = append(calls, c10call{wlate: wl, wt: wt, wtOK: o.Called("wt"), who: who, ctxOK: ok && vc.tag == "caller", args: args, g: g, gCalled: o.Called("g")})
			return nil
		}
	}
	opt := New()
	setMode(opt, mode)
	if shape == 10 {
		opt.SetRequireOrder()
	}
	opt.String("g", "dg")
	color := opt.StringOptional("color", "auto")
	tags := opt.StringSlice("tag", 1, 3)
	opt.SetCommandFn(fn("root"))
	a := opt.NewCommand("a", "command a")
	ao := a.String("ao", "dao")
	a.SetCommandFn(fn("a"))
	a1 := a.NewCommand("a1", "sub command")
	a1o := a1.Bool("a1o", false)
	a1.SetCommandFn(fn("a1"))
	opt.NewCommand("b", "no function")
	w := opt.NewCommand("w", "wrapper")
	w.UnsetOptions().SetUnknownMode(Pass)
	w.SetCommandFn(fn("w"))
	w.String("wt", "dwt")
	we := w.NewCommand("we", "command below the wrapper")
	we.SetCommandFn(fn("we"))
	wlate := w.String("wlate", "dwl") // declared when the wrapper's sub command already exists
	r := opt.NewCommand("r", "require-order only here")
	r.SetRequireOrder()
	r.SetUnknownMode(Pass)
	rf := r.Bool("rf", false)
	r.SetCommandFn(fn("r"))
	rs := r.NewCommand("rs", "")
	rs.SetCommandFn(fn("rs"))
	if helpCmd {
		opt.HelpCommand("help")
	}

	var args, wantArgs []string
	want := "root"
	wantG := "dg"
	switch shape {
	case 0:
	case 1:
		args, wantG = []string{"--g", gv}, gv
	case 2:
		args, want, wantArgs = []string{"a", "--ao", av, p}, "a", []string{p}
	case 3:
		args, want, wantG, wantArgs = []string{"--g", gv, "a", "a1", "--a1o", p}, "a1", gv, []string{p}
	case 4:
		args, want, wantG = []string{"a", "--g", gv, "a1"}, "a1", gv
	case 5:
		args, want = []string{"b"}, ""
	case 6:
		args, wantG = []string{"--g", "a"}, "a" // a command name consumed as an option value
	case 7:
		args, wantArgs = []string{"--", "a"}, []string{"a"} // never after `--`
	case 8:
		args, want, wantArgs = []string{"w", "--anything", p}, "w", []string{"--anything", p}
	case 9:
		args, want, wantArgs = []string{"a", "a", p}, "a", []string{"a", p}
	case 10:
		args, wantArgs = []string{p, "a"}, []string{p, "a"} // never after the require-order stop point
	case 11:
		args, want, wantArgs = []string{"a", "--", "a1"}, "a", []string{"a1"}
	case 12:
		// require-order set on a command only: its stop point hides the sub command name
		args, want, wantArgs = []string{"r", p, "rs", "--rf"}, "r", []string{p, "rs", "--rf"}
	case 13:
		// options a wrapper declares itself are inherited by its own sub commands
		args, want, wantArgs = []string{"w", "--wt", gv, "we", p}, "we", []string{p}
	case 14:
		// a bare optional-value option, the terminator, then a command name: nothing is selected
		args, wantArgs = []string{"--color", "--", "a"}, []string{"a"}
	case 18:
		// an option the wrapper declares after its sub command exists reaches that sub command
		args, want, wantArgs = []string{"w", "--wlate", gv, "we", p}, "we", []string{p}
	case 17:
		// a command name as a further value of a list option is a value
		args = []string{"--tag", p, "a"}
	case 15:
		// an unknown option is the require-order stop point of the command that has it set
		args, want, wantArgs = []string{"r", "--rf", "--tool", "rs", "--rf"}, "r", []string{"--tool", "rs", "--rf"}
	case 16:
		// the same with the unknown option first: the root has no require-order, the
		// command has, and the command's setting is the one that counts
		args, want, wantArgs = []string{"r", "--tool", "rs"}, "r", []string{"--tool", "rs"}
	}
	vPhase("run")
	remaining, err := opt.Parse(args)
	vObserve("err", err)
	vObserve("remaining", remaining)
	vAssert("parse/no-error", err == nil)
	vAssert("parse/remaining", eqStrs(remaining, wantArgs))
	if err != nil {
		return
	}
	derr := opt.Dispatch(vCtx{context.Background(), "caller"}, remaining)
	vObserve("dispatch-err", derr)
	if want == "" {
		vAssert("nofn/error", derr != nil)
		vAssert("nofn/nothing-ran", len(calls) == 0)
		vReach("no-function")
		return
	}
	vAssert("dispatch/no-error", derr == nil)
	vAssert("dispatch/exactly-once", len(calls) == 1)
	if len(calls) != 1 {
		return
	}
	c := calls[0]
	vAssert("dispatch/target", c.who == want)
	vAssert("dispatch/context", c.ctxOK)
	vAssert("dispatch/args", eqStrs(c.args, remaining))
	if shape == 12 || shape == 16 {
		vAssert("dispatch/no-option-after-stop", !*rf)
	}
	if shape == 15 {
		vAssert("dispatch/option-before-stop", *rf)
	}
	if shape == 14 {
		vAssert("dispatch/optional-keeps-default", *color == "auto")
	}
	if shape == 17 {
		vAssert("dispatch/list-took-the-command-name", eqStrs(*tags, []string{p, "a"}))
	} else {
		vAssert("dispatch/list-untouched", len(*tags) == 0)
	}
	if shape == 18 {
		vAssert("dispatch/late-wrapper-option-value", *wlate == gv && c.wlate == gv)
	}
	if shape == 13 {
		vAssert("dispatch/wrapper-option-value", c.wt == gv)
		vAssert("dispatch/wrapper-option-called", c.wtOK)
	}
	if want != "w" && want != "we" {
		vAssert("dispatch/inherited-value", c.g == wantG)
		vAssert("dispatch/inherited-called", c.gCalled == (shape == 1 || shape == 3 || shape == 4 || shape == 6))
	}
	if shape == 2 {
		vAssert("dispatch/own-option", *ao == av)
	}
	if shape == 3 {
		vAssert("dispatch/own-flag", *a1o)
	}
	vReach("dispatched")
}
